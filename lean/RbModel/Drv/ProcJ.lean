import RbModel.Sexp
import RbModel.ProcJ.Syntax
import RbModel.ProcJ.Ref
import RbModel.ProcJ.Compile
import RbModel.ProcJ.Vm
import RbModel.ProcJ.WfB
/-! Line-protocol handlers for the models of the layer "procedures ∪ jumps" (requests `procj.*`):
`procj.compare` (model generator = normalised real instruction list), `procj.run` (VM model on the model-compiled
code), `procj.ref` (reference semantics), `procj.wf` (the executable premise checker `RbModel.ProcJ.progWfB`), all on the
program serialised by `harness/src/procj_sx.rs`. -/
namespace RbModel.Drv.ProcJ
open RbModel RbModel.ProcJ RbModel.ProcJ.Compile
open RbModel.Proc (ProcDecl)
open RbModel.Proc.Compile (ScopeInfo)
open RbModel.Ast (Pos ty?)

private def slotTable? : Sexp → Option (List (String × Num.Ty))
  | .list l => l.mapM fun e => match e with
      | .list [n, t] => do pure ((← Instr.str? n).map Char.toUpper, ← ty? t)
      | _ => none
  | _ => none

private def scopesOf (procs : List (ProcDecl SStmt)) (tables : List (List (String × Num.Ty))) : List ScopeInfo :=
  (procs.zip tables).map fun (d, t) =>
    { label := (if d.result.isSome then ":fun:" else ":sub:") ++ d.name, result := d.result,
      nparams := d.params.length, table := t }

private def showC : CInstr × Pos → String
  | (c, p) =>
    let k := match c with
      | .loadA _ => "loadA" | .copyAToB => "copyAToB" | .copyAToC => "copyAToC" | .copyAToD => "copyAToD"
      | .copyCToB => "copyCToB" | .copyDToA => "copyDToA" | .copyDToB => "copyDToB"
      | .bin _ => "bin" | .negateA => "negateA" | .notA => "notA" | .cast _ => "cast"
      | .pushA => "pushA" | .popA => "popA"  | .varPath x _ => s!"varPath{if x.shared then "G" else ""}{x.slot}" | .copyVarPathToA => "copyVarPathToA"
      | .popVarPath => "popVarPath" | .copyAToVarPath => "copyAToVarPath" | .label n => "label:" ++ n.replace " " "_"
      | .jump a => s!"jump{a}" | .jumpIfFalse a => s!"jumpIfFalse{a}" | .goSub a => s!"goSub{a}" | .ret => "return" | .pushRegs => "pushRegs" | .popRegs => "popRegs"
      | .throwZeroStep => "throwZeroStep" | .halt => "halt" | .allocate _ => "allocate"
      | .printSetPrinter => "printSetPrinter" | .printSetFormat => "printSetFormat" | .printComma => "printComma"
      | .printSemicolon => "printSemicolon" | .printValue => "printValue" | .printEnd => "printEnd"
      | .beginArgs => "beginArgs" | .pushByVal => "pushByVal" | .pushByRef => "pushByRef" | .pushStack => "pushStack" | .pushStatic f => s!"pushStatic{f}" | .isDefined x => s!"isDefined{x}"
      | .popStack => "popStack" | .pushNamed n _ => "pushNamed:" ++ n | .pushRet a => s!"pushRet{a}" | .popRet => "popRet"
      | .builtInData => "builtInData" | .builtInRead => "builtInRead"
      | .enqueue i => s!"enqueue{i}" | .dequeue => "dequeue"
      | .stashResult x _ => s!"stashResult{x}" | .unStash => "unStash"
    s!"{k}@{p.row}:{p.col}"

private def outcomeStr : RbModel.ProcJ.Ref.Outcome → String
  | .normal => "normal"
  | .exited => "illFormed"
  | .jump _ => "illFormed"
  | .ret _ => "illFormed"
  | .notHere => "illFormed"
  | .halted => "halted"
  | .error c p => s!"(error {c} {p.row} {p.col})"
  | .inexact => "inexact"
  | .outOfFuel => "outOfFuel"
  | .illFormed => "illFormed"

def handle (cmd : String) (args : List Sexp) : Option String :=
  match cmd, args with
  | "procj.compare", [prog, .list [mainT, globT, .list procTs], code] => do
      let prog ← sprogram? prog
      let mainT ← slotTable? mainT
      let globT ← slotTable? globT
      let procTs ← procTs.mapM slotTable?
      let real ← codeOfSexp code
      if !prog.wf || procTs.length != prog.procs.length then pure "(ill-formed)"
      else
        match normalise mainT globT (scopesOf prog.procs procTs) real with
        | none => pure "(not-core)"
        | some rc =>
          let mc := compile prog
          match firstDiff mc rc 0 with
          | none => pure s!"(same {mc.length})"
          | some i =>
            let m := (mc[i]?).map showC |>.getD "-"
            let r := (rc[i]?).map showC |>.getD "-"
            pure s!"(differ {i} {m} {r} {mc.length} {rc.length})"
  | "procj.run", [fuel, prog] => do
      let fuel ← fuel.nat?
      let prog ← sprogram? prog
      let code := compile prog
      let outS := fun (σ : RbModel.ProcJ.Vm.Vm) => toString (Sexp.ofNats (σ.out.out.map Char.toNat))
      match RbModel.ProcJ.Vm.run code fuel RbModel.ProcJ.Vm.Vm.init with
      | .halted σ => pure s!"(normal {outS σ} ())"
      | .error c p σ => pure s!"((error {c} {p.row} {p.col}) {outS σ} ())"
      | .stuck => pure "(stuck () ())"
      | .outOfFuel => pure "(outOfFuel () ())"
  | "procj.ref", [fuel, prog] => do
      let fuel ← fuel.nat?
      let prog ← sprogram? prog
      let (st, o) := RbModel.ProcJ.Ref.run fuel prog.toAst
      let out := Sexp.ofNats (st.out.out.map Char.toNat)
      pure s!"({outcomeStr o} {out} ())"
  | "procj.wf", [prog] => do
      let prog ← sprogram? prog
      pure (if progWfB prog then "(wf true)" else "(wf false)")
  | _, _ => none

end RbModel.Drv.ProcJ
