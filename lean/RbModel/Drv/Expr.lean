import RbModel.Sexp
import RbModel.Expr
import RbModel.FloatLit
/-! Line-protocol handlers for `RbModel.Expr` (requests `expr.*`).

Source expressions: `(a n)` operand, `(p s)` parenthesis, `(ab n o s)` operand-operator-rest,
`(pb s o s)` parenthesis-operator-rest, `(u k s)` prefix operator; operators are the indices of
`Op.idx` / `UOp.idx`.  Trees: `(l n)`, `(p t)`, `(u k t)`, `(b o l r)`.
`expr.frac neg (int digits) (fraction digits) pound`: a literal with a fraction; the answer gives the sign
bit and the magnitude as `m e` (`m` odd, value `m * 2^e`), or `overflow` for a literal the parser rejects
with `ParserError::Overflow` (a decimal that rounds to an infinity). -/
namespace RbModel.Drv.Expr
open RbModel RbModel.Expr RbModel.FloatLit

def opOfNat? (n : Nat) : Option Op := Op.all[n]?

def uopOfNat? : Nat → Option UOp
  | 0 => some .neg
  | 1 => some .not
  | _ => none

partial def src? : Sexp → Option Src
  | .list [.atom "a", n] => do pure (.atom (← n.nat?))
  | .list [.atom "p", s] => do pure (.par (← src? s))
  | .list [.atom "ab", n, o, r] => do
      pure (.atomBin (← n.nat?) (← opOfNat? (← o.nat?)) (← src? r))
  | .list [.atom "pb", s, o, r] => do
      pure (.parBin (← src? s) (← opOfNat? (← o.nat?)) (← src? r))
  | .list [.atom "u", k, r] => do
      pure (.un (← uopOfNat? (← k.nat?)) (← src? r))
  | _ => none

def treeStr : Tree → String
  | .leaf n => s!"(l {n})"
  | .paren t => s!"(p {treeStr t})"
  | .un u t => s!"(u {u.idx} {treeStr t})"
  | .bin o l r => s!"(b {o.idx} {treeStr l} {treeStr r})"

def litStr : Lit → String
  | .int v => s!"(int {v})"
  | .long v => s!"(long {v})"
  | .double v => s!"(double {v})"
  | .overflow => "overflow"

def lit? : Sexp → Option Lit
  | .list [.atom "int", v] => do pure (.int (← v.int?))
  | .list [.atom "long", v] => do pure (.long (← v.int?))
  | .list [.atom "double", v] => do pure (.double (← v.int?))
  | _ => none

def digitsOk (base : Nat) (ds : List Nat) : Bool := ds.all (· < base)

/-- Number of trailing zero bits of a positive natural (fuel: the bit length). -/
def trailingZeros : Nat → Nat → Nat
  | 0, _ => 0
  | fuel + 1, n => if n % 2 = 0 ∧ n ≠ 0 then trailingZeros fuel (n / 2) + 1 else 0

/-- A non-negative dyadic rational as `m e` with `value = m * 2^e` and `m` odd (`0 0` for zero);
`none` if the denominator is not a power of two (cannot happen for a rounded value). -/
def dyadicStr (r : Rat) : Option String :=
  let n := r.num.natAbs
  let ld := r.den.log2
  if 2 ^ ld ≠ r.den then none
  else if n = 0 then some "0 0"
  else
    let t := trailingZeros (n.log2 + 1) n
    some s!"{n / 2 ^ t} {(t : Int) - (ld : Int)}"

def fvalStr : FVal → Option String
  | .fin s m => do pure s!"{if s then 1 else 0} {← dyadicStr m}"
  | .inf s => pure s!"{if s then 1 else 0} inf"

/-- `(single sign m e)` / `(double sign m e)` / `overflow`. -/
def flitStr : FRes → Option String
  | .ok (.single v) => do pure s!"(single {← fvalStr v})"
  | .ok (.double v) => do pure s!"(double {← fvalStr v})"
  | .overflow => pure "overflow"

def handle (cmd : String) (args : List Sexp) : Option String :=
  match cmd, args with
  | "expr.parse", [s] => do
      let s ← src? s
      pure (treeStr (parseChain s))
  | "expr.climb", [s] => do
      let s ← src? s
      match climb s with
      | some t => pure (treeStr t)
      | none => pure "none"
  | "expr.dec", [n] => do
      let n ← n.nat?
      pure (litStr (decLit n))
  | "expr.hex", [ds] => do
      let ds ← ds.nats?
      if digitsOk 16 ds then pure (litStr (hexLit ds)) else none
  | "expr.oct", [ds] => do
      let ds ← ds.nats?
      if digitsOk 8 ds then pure (litStr (octLit ds)) else none
  | "expr.negdec", [n] => do
      let n ← n.nat?
      pure (litStr (negDecLit n))
  | "expr.decs", [ds] => do
      let ds ← ds.nats?
      if digitsOk 10 ds then pure (litStr (decLit (digitsVal 10 ds))) else none
  | "expr.negdecs", [ds] => do
      let ds ← ds.nats?
      if digitsOk 10 ds then pure (litStr (negDecLit (digitsVal 10 ds))) else none
  | "expr.neghex", [ds] => do
      let ds ← ds.nats?
      if digitsOk 16 ds then pure (litStr (negLit (hexLit ds))) else none
  | "expr.negoct", [ds] => do
      let ds ← ds.nats?
      if digitsOk 8 ds then pure (litStr (negLit (octLit ds))) else none
  | "expr.frac", [neg, ids, fds, pound] => do
      let neg ← neg.bool?
      let ids ← ids.nats?
      let fds ← fds.nats?
      let pound ← pound.bool?
      if digitsOk 10 ids && digitsOk 10 fds && !fds.isEmpty then
        let t : FracTok := ⟨ids, fds, pound⟩
        flitStr (if neg then negFracLit t else fracLit t)
      else none
  | "expr.neg", [l] => do
      let l ← lit? l
      pure (litStr (negLit l))
  | _, _ => none

end RbModel.Drv.Expr
