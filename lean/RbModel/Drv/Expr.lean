import RbModel.Sexp
import RbModel.Expr
/-! Line-protocol handlers for `RbModel.Expr` (requests `expr.*`).

Source expressions: `(a n)` operand, `(p s)` parenthesis, `(ab n o s)` operand-operator-rest,
`(pb s o s)` parenthesis-operator-rest, `(u k s)` prefix operator; operators are the indices of
`Op.idx` / `UOp.idx`.  Trees: `(l n)`, `(p t)`, `(u k t)`, `(b o l r)`. -/
namespace RbModel.Drv.Expr
open RbModel RbModel.Expr

def opOfNat? (n : Nat) : Option Op := Op.all[n]?

def uopOfNat? : Nat → Option UOp
  | 0 => some .neg
  | 1 => some .not
  | _ => none

partial def src? : Sexp → Option Src
  | .list [.atom "a", n] => do pure (.atom (← n.nat?))
  | .list [.atom "p", s] => do pure (.par (← src? s))
  | .list [.atom "ab", n, o, r] => do
      pure (.atomBin (← n.nat?) (← opOfNat? (← o.nat?)) (← src? r))
  | .list [.atom "pb", s, o, r] => do
      pure (.parBin (← src? s) (← opOfNat? (← o.nat?)) (← src? r))
  | .list [.atom "u", k, r] => do
      pure (.un (← uopOfNat? (← k.nat?)) (← src? r))
  | _ => none

def treeStr : Tree → String
  | .leaf n => s!"(l {n})"
  | .paren t => s!"(p {treeStr t})"
  | .un u t => s!"(u {u.idx} {treeStr t})"
  | .bin o l r => s!"(b {o.idx} {treeStr l} {treeStr r})"

def litStr : Lit → String
  | .int v => s!"(int {v})"
  | .long v => s!"(long {v})"
  | .double v => s!"(double {v})"
  | .overflow => "overflow"

def lit? : Sexp → Option Lit
  | .list [.atom "int", v] => do pure (.int (← v.int?))
  | .list [.atom "long", v] => do pure (.long (← v.int?))
  | .list [.atom "double", v] => do pure (.double (← v.int?))
  | _ => none

def digitsOk (base : Nat) (ds : List Nat) : Bool := ds.all (· < base)

def handle (cmd : String) (args : List Sexp) : Option String :=
  match cmd, args with
  | "expr.parse", [s] => do
      let s ← src? s
      pure (treeStr (parseChain s))
  | "expr.climb", [s] => do
      let s ← src? s
      match climb s with
      | some t => pure (treeStr t)
      | none => pure "none"
  | "expr.dec", [n] => do
      let n ← n.nat?
      pure (litStr (decLit n))
  | "expr.hex", [ds] => do
      let ds ← ds.nats?
      if digitsOk 16 ds then pure (litStr (hexLit ds)) else none
  | "expr.oct", [ds] => do
      let ds ← ds.nats?
      if digitsOk 8 ds then pure (litStr (octLit ds)) else none
  | "expr.negdec", [n] => do
      let n ← n.nat?
      pure (litStr (negDecLit n))
  | "expr.decs", [ds] => do
      let ds ← ds.nats?
      if digitsOk 10 ds then pure (litStr (decLit (digitsVal 10 ds))) else none
  | "expr.negdecs", [ds] => do
      let ds ← ds.nats?
      if digitsOk 10 ds then pure (litStr (negDecLit (digitsVal 10 ds))) else none
  | "expr.neghex", [ds] => do
      let ds ← ds.nats?
      if digitsOk 16 ds then pure (litStr (negLit (hexLit ds))) else none
  | "expr.negoct", [ds] => do
      let ds ← ds.nats?
      if digitsOk 8 ds then pure (litStr (negLit (octLit ds))) else none
  | "expr.neg", [l] => do
      let l ← lit? l
      pure (litStr (negLit l))
  | _, _ => none

end RbModel.Drv.Expr
