import RbModel.Sexp
import RbModel.Str
/-! Line-protocol handlers for `RbModel.Str` (requests `str.*`).
Strings travel as lists of code points; results are `(ok <value>)` or `(err <code>)`. -/
namespace RbModel.Drv.Str
open RbModel

private def showStrRes : Except RbModel.Str.Err (List Nat) → String
  | .ok s => toString (Sexp.list [Sexp.atom "ok", Sexp.ofNats s])
  | .error e => s!"(err {e.code})"

private def showNatRes : Except RbModel.Str.Err Nat → String
  | .ok n => s!"(ok {n})"
  | .error e => s!"(err {e.code})"

private def showVal : Option RbModel.Str.VRes → String
  | none => "unmodelled"
  | some (.double neg m) => s!"(double {if neg then "t" else "f"} {m})"

def handle (cmd : String) (args : List Sexp) : Option String :=
  match cmd, args with
  | "str.left", [s, n] => do
      let s ← s.nats?; let n ← n.int?
      pure (showStrRes (RbModel.Str.left s n))
  | "str.right", [s, n] => do
      let s ← s.nats?; let n ← n.int?
      pure (showStrRes (RbModel.Str.right s n))
  | "str.mid", [s, n] => do
      let s ← s.nats?; let n ← n.int?
      pure (showStrRes (RbModel.Str.mid s n none))
  | "str.mid", [s, n, m] => do
      let s ← s.nats?; let n ← n.int?; let m ← m.int?
      pure (showStrRes (RbModel.Str.mid s n (some m)))
  | "str.instr", [s, t] => do
      let s ← s.nats?; let t ← t.nats?
      pure (showNatRes (RbModel.Str.instr none s t))
  | "str.instr", [n, s, t] => do
      let n ← n.int?; let s ← s.nats?; let t ← t.nats?
      pure (showNatRes (RbModel.Str.instr (some n) s t))
  | "str.len", [s] => do
      let s ← s.nats?
      pure (toString (RbModel.Str.len s))
  | "str.concat", [a, b] => do
      let a ← a.nats?; let b ← b.nats?
      pure (toString (Sexp.ofNats (RbModel.Str.concat a b)))
  | "str.ucase", [s] => do
      let s ← s.nats?
      pure (toString (Sexp.ofNats (RbModel.Str.ucase s)))
  | "str.lcase", [s] => do
      let s ← s.nats?
      pure (toString (Sexp.ofNats (RbModel.Str.lcase s)))
  | "str.ltrim", [s] => do
      let s ← s.nats?
      pure (toString (Sexp.ofNats (RbModel.Str.ltrim s)))
  | "str.rtrim", [s] => do
      let s ← s.nats?
      pure (toString (Sexp.ofNats (RbModel.Str.rtrim s)))
  | "str.space", [n] => do
      let n ← n.int?
      pure (showStrRes (RbModel.Str.space n))
  | "str.stringCode", [n, c] => do
      let n ← n.int?; let c ← c.int?
      pure (showStrRes (RbModel.Str.stringCode n c))
  | "str.stringStr", [n, s] => do
      let n ← n.int?; let s ← s.nats?
      pure (showStrRes (RbModel.Str.stringStr n s))
  | "str.chr", [i] => do
      let i ← i.int?
      pure (showStrRes (RbModel.Str.chr i))
  | "str.str", [k] => do
      let k ← k.int?
      pure (toString (Sexp.ofNats (RbModel.Str.strInt k)))
  | "str.val", [s] => do
      let s ← s.nats?
      pure (showVal (RbModel.Str.val s))
  | "str.leftmid", [s, n] => do
      -- LEFT$(s, n) + MID$(s, n + 1); the left operand is evaluated first
      let s ← s.nats?; let n ← n.int?
      pure (showStrRes (match RbModel.Str.left s n with
        | .error e => .error e
        | .ok l => match RbModel.Str.mid s (n + 1) none with
          | .error e => .error e
          | .ok r => .ok (RbModel.Str.concat l r)))
  | "str.lenconcat", [a, b] => do
      let a ← a.nats?; let b ← b.nats?
      pure (toString (RbModel.Str.len (RbModel.Str.concat a b)))
  | "str.spacestr", [n] => do
      -- SPACE$(n) + "|" + STRING$(n, 32)
      let n ← n.int?
      pure (showStrRes (match RbModel.Str.space n with
        | .error e => .error e
        | .ok l => match RbModel.Str.stringCode n 32 with
          | .error e => .error e
          | .ok r => .ok (RbModel.Str.concat (RbModel.Str.concat l [124]) r)))
  | "str.rightmid", [s, n] => do
      -- RIGHT$(s, n) + "|" + MID$(s, LEN(s) - n + 1)
      let s ← s.nats?; let n ← n.int?
      pure (showStrRes (match RbModel.Str.right s n with
        | .error e => .error e
        | .ok l => match RbModel.Str.mid s ((RbModel.Str.len s : Int) - n + 1) none with
          | .error e => .error e
          | .ok r => .ok (RbModel.Str.concat (RbModel.Str.concat l [124]) r)))
  | "str.trimboth", [s] => do
      -- LTRIM$(RTRIM$(s)) + "|" + RTRIM$(LTRIM$(s))
      let s ← s.nats?
      pure (showStrRes (.ok (RbModel.Str.concat (RbModel.Str.concat (RbModel.Str.ltrim (RbModel.Str.rtrim s)) [124])
        (RbModel.Str.rtrim (RbModel.Str.ltrim s)))))
  | "str.ucaselcase", [s] => do
      let s ← s.nats?
      pure (showStrRes (.ok (RbModel.Str.ucase (RbModel.Str.lcase s))))
  | "str.strdbl", [k] => do
      let k ← k.int?
      pure (toString (Sexp.ofNats (RbModel.Str.strWholeFloat k)))
  | "str.valstr", [k] => do
      let k ← k.int?
      pure (showVal (RbModel.Str.val (RbModel.Str.strInt k)))
  | _, _ => none

end RbModel.Drv.Str
