import RbModel.Sexp
import RbModel.Ctl
/-! Line-protocol handlers for the control-transfer machine (requests `ctl.*`). -/
namespace RbModel.Drv.Ctl
open RbModel RbModel.Ctl

private def bs? : Sexp → Option BsResult
  | .list [.atom "ok", i] => do pure (.found (← i.nat?))
  | .list [.atom "err", i] => do pure (.notFound (← i.nat?))
  | _ => none

private def ev? : Sexp → Option Ev
  | .atom "o" => some .ok
  | .atom "t" => some (.cond true)
  | .atom "f" => some (.cond false)
  | .list [.atom "e", c] => do pure (.error (← c.int?))
  | _ => none

private def optNat : Option Nat → String
  | some n => toString n
  | none => "-"

private def optInt : Option Int → String
  | some n => toString n
  | none => "-"

private def nats (l : List Nat) : String := "(" ++ " ".intercalate (l.map toString) ++ ")"

private def handlerStr : Handler → String
  | .none => "0 0"
  | .next => "1 0"
  | .address a => s!"2 {a}"

/-- `(pc (gosub, top last) (ret, top last) handler-kind handler-address err-address err-code)` -/
private def stStr (s : St) : String :=
  s!"({s.pc} {nats s.gosub.reverse} {nats s.ret.reverse} {handlerStr s.handler} {optNat s.errAddr} {optInt s.errCode})"

private def outcomeStr : Option Outcome → String
  | none => "(running)"
  | some (.cont _) => "(running)"
  | some (.halted s) => s!"(halted {s.pc})"
  | some (.failed c s) => s!"(failed {c} {s.pc})"
  | some .stuck => "(stuck)"

def handle (cmd : String) (args : List Sexp) : Option String :=
  match cmd, args with
  -- (ctl.finder (addrs) a (ok i)|(err i)) -> (finder admissible current next)
  | "ctl.finder", [addrs, a, r] => do
      let addrs ← addrs.nats?
      let a ← a.nat?
      let r ← bs? r
      pure s!"(finder {Sexp.ofBool (admissibleB addrs a r)} {optNat (findCurrentWith addrs a r)} {optNat (findNextWith addrs a r)})"
  -- (ctl.run code (addrs) (bs answers for a = 0 .. ) (events)) -> (ctl all-admissible outcome (states))
  | "ctl.run", [code, addrs, table, evs] => do
      let code ← codeOfSexp code
      let addrs ← addrs.nats?
      let table ← match table with
        | .list l => l.mapM bs?
        | _ => none
      let evs ← match evs with
        | .list l => l.mapM ev?
        | _ => none
      let tarr := table.toArray
      let adm := (List.range tarr.size).all fun a => admissibleB addrs a (tarr[a]?.getD (.notFound 0))
      -- outside the table (never consulted for addresses inside the list) the model's own search answers
      let f : Finder := ⟨addrs, fun a => match tarr[a]? with | some r => r | none => bsFirst addrs a⟩
      let (tr, o) := run code f evs St.init
      pure s!"(ctl {Sexp.ofBool adm} {outcomeStr o} ({" ".intercalate (tr.map stStr)}))"
  | _, _ => none

end RbModel.Drv.Ctl
