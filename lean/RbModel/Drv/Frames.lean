import RbModel.Sexp
import RbModel.Frames
/-! Line-protocol handler for the register-frame model (requests `frames.*`). -/
namespace RbModel.Drv.Frames
open RbModel RbModel.Frames

private def op? : Sexp → Option MOp
  | .atom "u" => some (.op .push)
  | .atom "o" => some (.op .pop)
  | .atom "w" => some (.op (.write fun f => { f with a := f.a + 1 }))
  | .atom "c" => some .call
  | .atom "r" => some .ret
  | .atom "l" => some (.leave none)
  | .list [.atom "l", d] => do some (.leave (some (← d.nat?)))
  | .atom "g" => some .gosub
  | .atom "t" => some .gret
  | .atom "e" => some .raise
  | .atom "n" => some .resume
  | _ => none

def handle (cmd : String) (args : List Sexp) : Option String :=
  match cmd, args with
  -- (frames.depths (u|o|w|c|r|l|(l d)|g|t|e|n ...)) -> depth of register_stack before each instruction
  | "frames.depths", [.list ops] => do
      let ops ← ops.mapM op?
      pure ("(" ++ " ".intercalate ((depths MSt.init ops).map toString) ++ ")")
  -- (frames.states (ops ...)) -> before each instruction: (height (gos, most recent first) ((m g) ..., innermost call first) errH)
  | "frames.states", [.list ops] => do
      let ops ← ops.mapM op?
      let one (s : MSt) : String :=
        s!"({s.st.length} ({" ".intercalate (s.gos.map toString)}) ({" ".intercalate (s.marks.map fun (m, g) => s!"({m} {g})")}) {s.errH})"
      pure ("(" ++ " ".intercalate ((states MSt.init ops).map one) ++ ")")
  | _, _ => none

end RbModel.Drv.Frames
