import RbModel.Sexp
import RbModel.ConstProc
import RbModel.Proc.WfB
/-! Line-protocol handler for `RbModel.ConstProc` (request `const.inlproc`): the linted trees of the named and the
inlined program WITH SUBs / FUNCTIONs (serialised by `harness/src/proc_sx.rs`) — do they match
(`ConstProc.matchP δ`, the hypothesis of `RbThm.C14Proc.const_inline_run_proc`), is the premise `progWfB` of
`Proc.compile_correct` true of both, and do the two runs of the reference semantics `Proc.Ref.run` (named: fuel `n`,
inlined: fuel `δ + n`) agree in output, outcome, main-module and SHARED variables?

`(const.inlproc <δ> <fuel> <named pprogram> <inlined pprogram>)` answers
`(<t | f | inexact> <wf named: t|f> <wf inlined: t|f> <same | differ | outOfFuel | inexact>)`;
`inexact` in the first place: the trees do not match, but some parenthesised literal-and-operator expression of the
inlined tree leaves the exact float domain (nothing is claimed there). -/
namespace RbModel.Drv.ConstProc
open RbModel RbModel.Num RbModel.Proc RbModel.ConstProc

/-- literals, operators and parentheses only -/
def closedP : Proc.Expr → Bool
  | .lit _ _ => true
  | .un _ e _ => closedP e
  | .bin _ l r _ _ => closedP l && closedP r
  | .paren e _ => closedP e
  | _ => false

/-- some operator of a closed expression answers `inexact` -/
def inexactC : Proc.Expr → Bool
  | .un op e _ =>
    inexactC e || (match pureVal e with
      | some a => (match (match op with | .neg => negate a | .not => unaryNot a) with | .inexact => true | _ => false)
      | none => false)
  | .bin op l r t _ =>
    inexactC l || inexactC r || (match pureVal l, pureVal r with
      | some a, some b => (match Ref.binStep op t a b with | .inexact => true | _ => false)
      | _, _ => false)
  | .paren e _ => inexactC e
  | _ => false

mutual
/-- some parenthesised closed subexpression leaves the exact float domain -/
def inexactParen : Proc.Expr → Bool
  | .lit _ _ => false
  | .var _ _ _ => false
  | .un _ e _ => inexactParen e
  | .bin _ l r _ _ => inexactParen l || inexactParen r
  | .paren k _ => (closedP k && inexactC k) || inexactParen k
  | .callFn _ args _ _ => inexactArgs args
def inexactArgs : Args → Bool
  | .nil => false
  | .cons e _ _ rest => inexactParen e || inexactArgs rest
end

def inexactItems : List PrintItem → Bool
  | [] => false
  | .expr e :: r => inexactParen e || inexactItems r
  | _ :: r => inexactItems r

def inexactCase : CaseExpr → Bool
  | .simple e => inexactParen e
  | .is _ e => inexactParen e
  | .range a b => inexactParen a || inexactParen b

mutual
def inexactS : Stmt → Bool
  | .skip => false
  | .seq a b => inexactS a || inexactS b
  | .assign _ _ e _ => inexactParen e
  | .print items _ => inexactItems items
  | .read _ _ _ => false
  | .ifs c a b _ => inexactParen c || inexactS a || inexactS b
  | .select e cs _ => inexactParen e || inexactCs cs
  | .forLoop _ _ lo hi st body _ =>
    inexactParen lo || inexactParen hi || (match st with | some e => inexactParen e | none => false) || inexactS body
  | .while c body _ => inexactParen c || inexactS body
  | .doLoop c _ _ body _ => inexactParen c || inexactS body
  | .end_ _ => false
  | .callSub _ args _ => inexactArgs args
  | .exitProc _ => false
def inexactCs : Cases → Bool
  | .nil => false
  | .else_ b => inexactS b
  | .case conds b rest => conds.any inexactCase || inexactS b || inexactCs rest
end

def inexactProg (p : Program) : Bool :=
  inexactS p.body || p.procs.any fun d => inexactS d.body

def handle (cmd : String) (args : List Sexp) : Option String :=
  match cmd, args with
  | "const.inlproc", [d, fuel, n, i] => do
      let δ ← d.nat?
      let fuel ← fuel.nat?
      let n ← sprogram? n
      let i ← sprogram? i
      let (pn, pi) := (n.toAst, i.toAst)
      let m := if matchP δ pn pi then "t" else if inexactProg pi then "inexact" else "f"
      let b := fun (x : Bool) => if x then "t" else "f"
      let (sn, on) := Proc.Ref.run fuel pn
      let (si, oi) := Proc.Ref.run (δ + fuel) pi
      let sameOutcome : Option Bool := match on, oi with
        | .outOfFuel, _ => none
        | _, .outOfFuel => none
        | .normal, .normal => some true
        | .halted, .halted => some true
        | .exited, .exited => some true
        | .illFormed, .illFormed => some true
        | .error c p, .error c' p' => some (c == c' && p == p')
        | _, _ => some false
      -- a run that leaves the exact float domain claims nothing (the inlined program may do so where the named one has
      -- the folded literal)
      let agree := match on, oi, sameOutcome with
        | .inexact, _, _ => "inexact"
        | _, .inexact, _ => "inexact"
        | _, _, none => "outOfFuel"
        | _, _, some so =>
          if so && sn.out.out == si.out.out && sn.env == si.env && sn.glob == si.glob && sn.dataIdx == si.dataIdx
          then "same" else "differ"
      pure s!"({m} {b (progWfB n)} {b (progWfB i)} {agree})"
  | _, _ => none

end RbModel.Drv.ConstProc
