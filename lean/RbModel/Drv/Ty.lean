import RbModel.Sexp
import RbModel.Ty
import RbModel.TyCore
import RbModel.Drv.Num
/-! Line-protocol handlers for `RbModel.Ty` (requests `ty.*`).

`(ty.lint (t0 .. t25) (arrays..) ((fn (param..))..) ((sub (param..))..) ((line..)..))`
* `t_i`: the DEFtype of letter i (`int|long|sgl|dbl|str`);
* identifiers `(letter rest sfx)` with `sfx` = `none` or a type; parameters are identifiers;
* expressions `(l ty)` literal, `(v id)`, `(p e)`, `(neg e)`, `(not e)`, `(b op l r)`, `(c id (e..))` call or
  array element, `(f builtin (e..))`; argument lists of `c` and `f` must not be empty;
* lines `(assign row lhs rhs)`, `(print row (e..))`, `(call row id (e..))`, `(jump row id)`, `(label row id)`,
  `(cond row e)`, `(condEnd row e)`, `(for row id (e..) nextRow id|none)`, `(select row e)`,
  `(case row sel (e..))`, `(dim row id (e..))`; the last argument is the list of units (main first).
Answer: `ok` or `(err <LintError> <row>)`.
`(ty.type (t0 .. t25) (arrays..) e)` answers the static type of an expression or `mismatch`.
`(ty.core (sprogram ..))` answers `(ty true|false)`: `RbModel.TyCore.tyTopB` on the serialised linted tree. -/
namespace RbModel.Drv.Ty
open RbModel RbModel.Num RbModel.Ty Gen.TyTables

def ty? : Sexp → Option Num.Ty := RbModel.Drv.Num.ty?

def ident? : Sexp → Option Ident
  | .list [l, r, .atom "none"] => do
    let l ← l.nat?
    if l < 26 then pure ⟨l, ← r.nat?, none⟩ else none
  | .list [l, r, t] => do
    let l ← l.nat?
    if l < 26 then pure ⟨l, ← r.nat?, some (← ty? t)⟩ else none
  | _ => none

def builtin? : Sexp → Option BuiltIn
  | .atom "chr" => some .chr | .atom "lcase" => some .lcase | .atom "ucase" => some .ucase
  | .atom "ltrim" => some .ltrim | .atom "rtrim" => some .rtrim | .atom "space" => some .space
  | .atom "str" => some .str | .atom "val" => some .val | .atom "left" => some .left
  | .atom "right" => some .right | .atom "mid" => some .mid | .atom "instr" => some .instr
  | .atom "string" => some .string | .atom "len" => some .len
  | _ => none

def litOf : Num.Ty → Val
  | .int => .int 0 | .long => .long 0 | .sgl => .sgl 0 | .dbl => .dbl 0 | .str => .str []

mutual
partial def expr? (deft : Nat → Num.Ty) : Sexp → Option (Expr Key)
  | .list [.atom "l", t] => do pure (.lit (litOf (← ty? t)))
  | .list [.atom "v", x] => do pure (.var (resolve deft (← ident? x)))
  | .list [.atom "p", e] => do pure (.paren (← expr? deft e))
  | .list [.atom "neg", e] => do pure (.un .neg (← expr? deft e))
  | .list [.atom "not", e] => do pure (.un .not (← expr? deft e))
  | .list [.atom "b", op, l, r] => do
    pure (.bin (← RbModel.Drv.Num.op? op) (← expr? deft l) (← expr? deft r))
  | .list [.atom "c", f, .list (a :: as)] => do
    pure (.call (resolve deft (← ident? f)) (← exprs? deft (a :: as)))
  | .list [.atom "f", b, .list (a :: as)] => do
    pure (.bi (← builtin? b) (← exprs? deft (a :: as)))
  | _ => none
partial def exprs? (deft : Nat → Num.Ty) : List Sexp → Option (Exprs Key)
  | [] => some .nil
  | e :: es => do pure (.cons (← expr? deft e) (← exprs? deft es))
end

def line? (deft : Nat → Num.Ty) : Sexp → Option (Line Key)
  | .list [.atom "assign", row, l, r] => do pure (.assign (← row.nat?) (← expr? deft l) (← expr? deft r))
  | .list [.atom "print", row, .list es] => do pure (.print (← row.nat?) (← exprs? deft es))
  | .list [.atom "call", row, s, .list es] => do
    pure (.callSub (← row.nat?) (resolve deft (← ident? s)) (← exprs? deft es))
  | .list [.atom "jump", row, l] => do pure (.jump (← row.nat?) (resolve deft (← ident? l)))
  | .list [.atom "label", row, l] => do pure (.label (← row.nat?) (resolve deft (← ident? l)))
  | .list [.atom "cond", row, c] => do pure (.cond (← row.nat?) (← expr? deft c))
  | .list [.atom "condEnd", row, c] => do pure (.condEnd (← row.nat?) (← expr? deft c))
  | .list [.atom "for", row, v, .list es, nrow, .atom "none"] => do
    pure (.forHead (← row.nat?) (resolve deft (← ident? v)) (← exprs? deft es) (← nrow.nat?) none)
  | .list [.atom "for", row, v, .list es, nrow, n] => do
    pure (.forHead (← row.nat?) (resolve deft (← ident? v)) (← exprs? deft es) (← nrow.nat?)
      (some (resolve deft (← ident? n))))
  | .list [.atom "select", row, e] => do pure (.select (← row.nat?) (← expr? deft e))
  | .list [.atom "case", row, sel, .list es] => do
    pure (.case (← row.nat?) (← expr? deft sel) (← exprs? deft es))
  | .list [.atom "dim", row, a, .list es] => do
    pure (.dim (← row.nat?) (resolve deft (← ident? a)) (← exprs? deft es))
  | _ => none

def deft? : Sexp → Option (Nat → Num.Ty)
  | .list ts => do
    let ts ← ts.mapM ty?
    if ts.length = 26 then pure (fun i => ts.getD i .sgl) else none
  | _ => none

def sig? (deft : Nat → Num.Ty) : Sexp → Option (Key × List Num.Ty)
  | .list [f, .list ps] => do
    let ps ← ps.mapM ident?
    pure (resolve deft (← ident? f), ps.map fun p => (resolve deft p).2)
  | _ => none

def showErr : LintErr → String
  | .typeMismatch => "TypeMismatch" | .argCount => "ArgumentCountMismatch"
  | .argType => "ArgumentTypeMismatch" | .varRequired => "VariableRequired"
  | .nextWithoutFor => "NextWithoutFor" | .labelNotDefined => "LabelNotDefined"
  | .duplicateLabel => "DuplicateLabel" | .duplicateDefinition => "DuplicateDefinition"
  | .subNotDefined => "SubprogramNotDefined"

def env? (deft : Nat → Num.Ty) (arrs fns subs : List Sexp) : Option (Env Key) := do
  let arrs ← arrs.mapM ident?
  pure { ty := keyTy, arrays := arrs.map (resolve deft), fns := ← fns.mapM (sig? deft), subs := ← subs.mapM (sig? deft) }

def handle (cmd : String) (args : List Sexp) : Option String :=
  match cmd, args with
  | "ty.lint", [d, .list arrs, .list fns, .list subs, .list units] => do
    let deft ← deft? d
    let Γ ← env? deft arrs fns subs
    let us ← units.mapM (fun u => match u with
      | .list ls => do pure (⟨← ls.mapM (line? deft)⟩ : Part Key)
      | _ => none)
    match lint Γ us with
    | none => pure "ok"
    | some (e, row) => pure s!"(err {showErr e} {row})"
  | "ty.type", [d, .list arrs, e] => do
    let deft ← deft? d
    let Γ ← env? deft arrs [] []
    match typeOf Γ (← expr? deft e) with
    | some t => pure (RbModel.Drv.Num.showTy t)
    | none => pure "mismatch"
  | "ty.core", [prog] => do
    -- the typing discipline of Thm/C12Core.lean (`wf_no_type_mismatch`) on the linted tree of a core program
    let sp ← Src.sprogram? prog
    pure (if TyCore.tyTopB sp then "(ty true)" else "(ty false)")
  | _, _ => none

end RbModel.Drv.Ty
