/-
Model of PRINT / LPRINT / PRINT #n (property C16).

Hand-written port of
* `rusty_basic/src/interpreter/write_printer.rs`  (`WritePrinter::{print_as_is, print, println, move_to_next_print_zone}`),
* `rusty_basic/src/interpreter/print.rs`          (`PrintState`, the PRINT USING scanners, `PrintHelper`),
* `rusty_basic/src/interpreter/string_utils.rs`   (`fix_length`, used by the `\ \` field),
* `rusty_basic/src/interpreter/main.rs`           (`choose_printer`, `print_comma`, `print_value_from_a`, `print_end`
                                                   and the seven `Instruction::Print*` arms of the fetch-execute loop),
* `rusty_basic/src/instruction_generator/print.rs` (`generate_print_instructions`: the lowering of one PRINT statement).

Text is a `List Char` (Rust `String` = sequence of `char`).  A device records everything written to it (`out`)
and its column counter (`lastColumn`).  The column counts characters (`s.chars().count()`, the repaired F13).

No imports outside core.
-/
namespace RbModel.Print

/-! ## Devices: `write_printer.rs` -/

/-- `interpreter/mod.rs: is_cr_lf`. -/
def isCrLf (c : Char) : Bool := c == '\r' || c == '\n'

/-- `WritePrinter<T>`: `out` is everything handed to `writer.write`, `lastColumn` is `last_column`. -/
structure WritePrinter where
  out : List Char
  lastColumn : Nat
  deriving Repr, DecidableEq

namespace WritePrinter

/-- `WritePrinter::new`. -/
def new : WritePrinter := { out := [], lastColumn := 0 }

/-- `print_as_is`: write the text, advance the column by its number of characters. -/
def printAsIs (p : WritePrinter) (s : List Char) : WritePrinter :=
  { out := p.out ++ s, lastColumn := p.lastColumn + s.length }

/-- `println`: column := 0, write CR LF. -/
def println (p : WritePrinter) : WritePrinter :=
  { out := p.out ++ ['\r', '\n'], lastColumn := 0 }

end WritePrinter

/-- `s.split(is_cr_lf)`: the pieces between CR / LF characters (always at least one piece; CR LF gives an
empty piece in the middle, as in Rust). -/
def splitCrLf : List Char → List (List Char)
  | [] => [[]]
  | c :: cs =>
    if isCrLf c then [] :: splitCrLf cs
    else match splitCrLf cs with
      | [] => [[c]]
      | p :: ps => (c :: p) :: ps

namespace WritePrinter

/-- The loop body of `print` for the pieces after the first: `println` then `print_as_is(part)`. -/
def printRest (p : WritePrinter) : List (List Char) → WritePrinter
  | [] => p
  | part :: parts => printRest ((p.println).printAsIs part) parts

/-- `Printer::print`: split on CR and on LF separately; the first piece is written as is, every further
piece after a `println`. -/
def print (p : WritePrinter) (s : List Char) : WritePrinter :=
  match splitCrLf s with
  | [] => p
  | first :: rest => printRest (p.printAsIs first) rest

/-- `move_to_next_print_zone`: `14 - col % 14` spaces through `print`. -/
def moveToNextPrintZone (p : WritePrinter) : WritePrinter :=
  p.print (List.replicate (14 - p.lastColumn % 14) ' ')

end WritePrinter

/-- The three operations of the `Printer` trait, as data (used for histories). -/
inductive Op where
  | print (s : List Char)
  | println
  | zone
  deriving Repr, DecidableEq

namespace WritePrinter

def apply (p : WritePrinter) : Op → WritePrinter
  | .print s => p.print s
  | .println => p.println
  | .zone => p.moveToNextPrintZone

/-- A history of trait calls on one device. -/
def run (p : WritePrinter) : List Op → WritePrinter
  | [] => p
  | o :: os => run (p.apply o) os

end WritePrinter

/-! ## Values and number rendering: `print.rs` `PrintHelper` -/

/-- A finite decimal `± mant / 10^scale` (how SINGLE / DOUBLE operands enter the model).  In-domain values are those
whose shortest round-trip decimal (Rust `Display`) is this decimal. -/
structure Dec where
  neg : Bool
  mant : Nat
  scale : Nat
  deriving Repr, DecidableEq

inductive Value where
  | int (i : Int)       -- VInteger
  | long (i : Int)      -- VLong
  | single (d : Dec)    -- VSingle
  | double (d : Dec)    -- VDouble
  | str (s : List Char) -- VString
  deriving Repr, DecidableEq

def digitChar (d : Nat) : Char := Char.ofNat (48 + d % 10)

/-- Decimal digits of `n`, most significant first, accumulated in front of `acc` (fuel = an upper bound on the
number of digits). -/
def digitsAux : Nat → Nat → List Char → List Char
  | 0, _, acc => acc
  | fuel + 1, n, acc =>
    if n / 10 = 0 then digitChar n :: acc
    else digitsAux fuel (n / 10) (digitChar n :: acc)

/-- `u.to_string()` for an unsigned number. -/
def natDigits (n : Nat) : List Char := digitsAux (n + 1) n []

/-- `i.to_string()` for a signed integer. -/
def intText (i : Int) : List Char :=
  if i < 0 then '-' :: natDigits i.natAbs else natDigits i.natAbs

/-- The lowest `k` decimal digits of `n`, zero padded (fractional digits). -/
def fixedDigits : Nat → Nat → List Char
  | 0, _ => []
  | k + 1, n => fixedDigits k (n / 10) ++ [digitChar n]

/-- Strip trailing zeros of the mantissa while the scale allows: `(mant, scale)` of the same value. -/
def normAux : Nat → Nat → Nat × Nat
  | 0, m => (m, 0)
  | s + 1, m => if m % 10 = 0 then normAux s (m / 10) else (m, s + 1)

def Dec.normalize (d : Dec) : Dec :=
  let r := normAux d.scale d.mant
  ⟨d.neg, r.1, r.2⟩

/-- `f < 0.0` (false for the negative zero). -/
def Dec.isNeg (d : Dec) : Bool := d.neg && d.mant != 0

/-- Rust `Display` of an in-domain float: sign, integer digits, and `.fraction` without trailing zeros.
(A zero of either sign is written `0`: `print_variant` replaces it by the integer 0.) -/
def Dec.text (d : Dec) : List Char :=
  let n := d.normalize
  let ip := natDigits (n.mant / 10 ^ n.scale)
  let body := if n.scale = 0 then ip else ip ++ '.' :: fixedDigits n.scale (n.mant % 10 ^ n.scale)
  if d.isNeg then '-' :: body else body

/-- `print_number`: `format!(" {} ", n)` or `format!("{} ", n)`. -/
def numberText (body : List Char) (leadingSpace : Bool) : List Char :=
  if leadingSpace then ' ' :: (body ++ [' ']) else body ++ [' ']

/-- The text `print_variant` hands to `Printer::print`. -/
def valueText : Value → List Char
  | .int i => numberText (intText i) (decide (i ≥ 0))
  | .long i => numberText (intText i) (decide (i ≥ 0))
  | .single d => numberText d.text (!d.isNeg)
  | .double d => numberText d.text (!d.isNeg)
  | .str s => s

/-! ## PRINT USING: `print.rs` scanners -/

inductive Err where
  | illegalFunctionCall
  | typeMismatch
  | other            -- `RuntimeError::Other("Not a formatting character")`, unreachable from `PrintState`
  | fileNotOpen      -- `choose_printer`: `try_get_file_info_output` fails (FileNotFound / BadFileMode)
  deriving Repr, DecidableEq

/-- `is_formatting_char`. -/
def isFormattingChar (c : Char) : Bool := c == '#' || c == '\\' || c == '!'

/-- The `while` loop of `print_non_formatting_chars`: copy literals from `i`, cyclically, until a formatting character;
error when the scan returns to `start`.  (`fuel` = length of the format: the loop cannot run longer.) -/
def nonFmtLoop (fmt : List Char) (start : Nat) : Nat → Nat → List Char → Except Err (List Char × Nat)
  | 0, _, _ => .error .illegalFunctionCall
  | fuel + 1, i, buf =>
    let c := fmt.getD i ' '
    if isFormattingChar c then .ok (buf, i)
    else
      let i' := (i + 1) % fmt.length
      if i' = start then .error .illegalFunctionCall
      else nonFmtLoop fmt start fuel i' (buf ++ [c])

/-- `print_non_formatting_chars`. -/
def printNonFormattingChars (fmt : List Char) (index : Nat) : Except Err (List Char × Nat) :=
  nonFmtLoop fmt index (fmt.length + 1) index []

/-- `print_remaining_non_formatting_chars`: literals up to the next field or the end (no wrap-around). -/
def printRemainingNonFormattingChars (fmt : List Char) (index : Nat) : List Char × Nat :=
  let lit := (fmt.drop index).takeWhile (fun c => !isFormattingChar c)
  (lit, index + lit.length)

def isNumFmtChar (c : Char) : Bool := c == '#' || c == ',' || c == '.'

/-- The `while i > 0 || j > 0` loop of `fmt_integer_part`, on the reversed format and the reversed digits
(`acc` is `result`, built by `insert(0, _)`). -/
def fmtIntLoop : List Char → List Char → List Char → List Char
  | [], ds, acc => ds.reverse ++ acc
  | f :: fs, ds, acc =>
    if f == ',' then fmtIntLoop fs ds ((if ds.isEmpty then ' ' else ',') :: acc)
    else match ds with
      | [] => fmtIntLoop fs [] (' ' :: acc)
      | d :: ds' => fmtIntLoop fs ds' (d :: acc)

/-- `fmt_integer_part` (the format holds only `#` and `,` here, so the error branch is unreachable). -/
def fmtIntegerPart (integerFmt : List Char) (unformatted : List Char) : List Char :=
  fmtIntLoop integerFmt.reverse unformatted.reverse []

/-- `d.round() as i64` then `.to_string()`: round half away from zero. -/
def Dec.roundText (d : Dec) : List Char :=
  let p := 10 ^ d.scale
  let q := d.mant / p
  let r := d.mant % p
  let m := if 2 * r ≥ p then q + 1 else q
  if d.neg && m != 0 then '-' :: natDigits m else natDigits m

/-- `format!("{:.1$}", d, k)` for `k > 0` on an in-domain value: correct rounding to `k` fractional digits (ties to even;
ties of values that are not binary fractions are outside the domain). The sign is kept even when the result is zero. -/
def Dec.fixedText (d : Dec) (k : Nat) : List Char :=
  let m :=
    if d.scale ≤ k then d.mant * 10 ^ (k - d.scale)
    else
      let p := 10 ^ (d.scale - k)
      let q := d.mant / p
      let r := d.mant % p
      if 2 * r > p then q + 1 else if 2 * r < p then q else if q % 2 = 0 then q else q + 1
  let body := natDigits (m / 10 ^ k) ++ '.' :: fixedDigits k (m % 10 ^ k)
  if d.neg then '-' :: body else body

/-- `format_variant`. -/
def formatVariant (v : Value) (fractionalDigits : Nat) : Except Err (List Char) :=
  match v with
  | .single d => .ok (if fractionalDigits > 0 then d.fixedText fractionalDigits else d.roundText)
  | .double d => .ok (if fractionalDigits > 0 then d.fixedText fractionalDigits else d.roundText)
  | .int i => .ok (intText i)
  | .long i => .ok (intText i)
  | .str _ => .error .typeMismatch

/-- `fmt_with_fractional_part`. -/
def fmtWithFractionalPart (integerFmt fractionalFmt : List Char) (v : Value) : Except Err (List Char) :=
  match formatVariant v fractionalFmt.length with
  | .error e => .error e
  | .ok unformatted =>
    let ui := unformatted.takeWhile (· != '.')
    let afterDot := (unformatted.dropWhile (· != '.')).drop 1
    let uf := afterDot.takeWhile (· != '.')
    let frac := (uf ++ List.replicate fractionalFmt.length '0').take fractionalFmt.length
    .ok (fmtIntegerPart integerFmt ui ++ '.' :: frac)

/-- `fmt_without_fractional_part`. -/
def fmtWithoutFractionalPart (integerFmt : List Char) (v : Value) : Except Err (List Char) :=
  match formatVariant v 0 with
  | .error e => .error e
  | .ok unformatted => .ok (fmtIntegerPart integerFmt unformatted)

/-- `numeric_formatting::print_digit_formatting_chars`: returns the text and the new index. -/
def printDigitFormattingChars (fmt : List Char) (index : Nat) (v : Value) : Except Err (List Char × Nat) :=
  let numberFmt := (fmt.drop index).takeWhile isNumFmtChar
  let index' := index + numberFmt.length
  let integerPart := numberFmt.takeWhile (· != '.')
  let rest := numberFmt.dropWhile (· != '.')
  if integerPart.isEmpty then .error .illegalFunctionCall
  else match rest with
    | [] =>
      match fmtWithoutFractionalPart integerPart v with
      | .error e => .error e
      | .ok s => .ok (s, index')
    | _ :: afterDot =>
      let fractionalPart := afterDot.takeWhile (· != '.')
      if fractionalPart.isEmpty then .error .illegalFunctionCall
      else match fmtWithFractionalPart integerPart fractionalPart v with
        | .error e => .error e
        | .ok s => .ok (s, index')

/-- `string_utils::fix_length`: cut at the first NUL, then truncate or pad with spaces to `len`. -/
def fixLength (s : List Char) (len : Nat) : List Char :=
  let t := s.takeWhile (· != '\x00')
  let t := t.take len
  t ++ List.replicate (len - t.length) ' '

/-- The `while` loop of `print_string_formatting_chars` over the characters after the opening backslash:
`some n` = number of blanks before the closing backslash, `none`+error otherwise. -/
def scanBackslash : List Char → Nat → Except Err Nat
  | [], _ => .error .illegalFunctionCall            -- did not find closing backslash
  | c :: cs, n =>
    if c == '\\' then .ok n
    else if c != ' ' then .error .illegalFunctionCall  -- only spaces allowed within backslashes
    else scanBackslash cs (n + 1)

/-- `print_string_formatting_chars`. -/
def printStringFormattingChars (fmt : List Char) (index : Nat) (v : Value) : Except Err (List Char × Nat) :=
  match scanBackslash (fmt.drop (index + 1)) 0 with
  | .error e => .error e
  | .ok n =>
    match v with
    | .str s => .ok (fixLength s (n + 2), index + n + 2)
    | _ => .error .typeMismatch

/-- `print_first_char_formatting_chars`. -/
def printFirstCharFormattingChars (index : Nat) (v : Value) : Except Err (List Char × Nat) :=
  match v with
  | .str [] => .error .illegalFunctionCall
  | .str (c :: _) => .ok ([c], index + 1)
  | _ => .error .typeMismatch

/-- `print_formatting_chars`. -/
def printFormattingChars (fmt : List Char) (index : Nat) (v : Value) : Except Err (List Char × Nat) :=
  let c := fmt.getD index ' '
  if c == '#' then printDigitFormattingChars fmt index v
  else if c == '\\' then printStringFormattingChars fmt index v
  else if c == '!' then printFirstCharFormattingChars index v
  else .error .other

/-- `PrintState::print_value_with_format_string`: text for one value and the new format cursor. -/
def printValueWithFormatString (fmt : List Char) (index : Nat) (v : Value) : Except Err (List Char × Nat) :=
  if fmt.isEmpty then .error .illegalFunctionCall
  else
    match printNonFormattingChars fmt (index % fmt.length) with
    | .error e => .error e
    | .ok (lit, i) =>
      match printFormattingChars fmt i v with
      | .error e => .error e
      | .ok (field, i') => .ok (lit ++ field, i')

/-! ## `PrintState` and the seven print instructions -/

/-- `instruction_generator::PrinterType`. -/
inductive PrinterType where
  | print | lprint | file
  deriving Repr, DecidableEq

/-- `print.rs: PrintState`. -/
structure PrintState where
  printerType : PrinterType
  fileHandle : Nat
  formatString : Option (List Char)
  skipNewLine : Bool
  formatIndex : Nat
  deriving Repr, DecidableEq

/-- `PrintState::new`. -/
def PrintState.new : PrintState :=
  { printerType := .print, fileHandle := 0, formatString := none, skipNewLine := false, formatIndex := 0 }

/-- `PrintState::set_printer_type` (= `reset`, which also clears the skip-newline flag: a statement starts with no
separator pending, then the type). -/
def PrintState.setPrinterType (ps : PrintState) (t : PrinterType) : PrintState :=
  { ps with printerType := t, fileHandle := 0, formatString := none, formatIndex := 0, skipNewLine := false }

/-- The seven instructions; where the code reads register A the instruction carries the value found there. -/
inductive Instr where
  | setPrinterType (t : PrinterType)
  | setFileHandle (h : Nat)
  | setFormatStringFromA (a : Value)
  | comma
  | semicolon
  | valueFromA (a : Value)
  | printEnd
  deriving Repr, DecidableEq

/-- Where output goes: `choose_printer`'s three cases. -/
inductive Device where
  | screen
  | lpt1
  | file (h : Nat)
  deriving Repr, DecidableEq

/-- `choose_printer`, the selection part. -/
def PrintState.target (ps : PrintState) : Device :=
  match ps.printerType with
  | .print => .screen
  | .lprint => .lpt1
  | .file => .file ps.fileHandle

/-- The effect of one instruction on the `PrintState` and the calls it makes on the chosen printer
(`none` = `choose_printer` is not called at all; `some []` = called, nothing written).
Ports the `PrintState` methods together with their callers in `main.rs`. -/
def psStep (ps : PrintState) : Instr → Except Err (PrintState × Option (List Op))
  | .setPrinterType t => .ok (ps.setPrinterType t, none)
  | .setFileHandle h => .ok ({ ps with fileHandle := h }, none)
  | .setFormatStringFromA a =>
    .ok ({ ps with formatString := match a with | .str s => some s | _ => none }, none)
  | .comma => .ok ({ ps with skipNewLine := true }, some [.zone])          -- on_print_comma; move_to_next_print_zone
  | .semicolon => .ok ({ ps with skipNewLine := true }, none)               -- print_semicolon
  | .valueFromA v =>                                                        -- print_value_from_a
    match ps.formatString with
    | none => .ok ({ ps with skipNewLine := false }, some [.print (valueText v)])
    | some fmt =>
      match printValueWithFormatString fmt ps.formatIndex v with
      | .error e => .error e
      | .ok (s, i) => .ok ({ ps with skipNewLine := false, formatIndex := i }, some [.print s])
  | .printEnd =>                                                            -- print_end
    let (remaining, idx) : List Op × Nat :=
      match ps.formatString with
      | none => ([], ps.formatIndex)
      | some fmt =>
        let (lit, i) := printRemainingNonFormattingChars fmt ps.formatIndex
        ([.print lit], i)
    let nl : List Op := if ps.skipNewLine then [] else [.println]
    .ok ({ ps with skipNewLine := false, formatIndex := idx }, some (remaining ++ nl))

/-- All printers of the interpreter: stdout, LPT1 and the files open for output (`none` = no such printer). -/
abbrev Devices := Device → Option WritePrinter

def Devices.set (dev : Devices) (d : Device) (p : WritePrinter) : Devices :=
  fun e => if e = d then some p else dev e

structure St where
  ps : PrintState
  dev : Devices

/-- stdout and LPT1 exist from the start; `openFiles` are the handles open for output. -/
def St.init (openFiles : List Nat) : St :=
  { ps := PrintState.new,
    dev := fun d => match d with
      | .screen => some WritePrinter.new
      | .lpt1 => some WritePrinter.new
      | .file h => if h ∈ openFiles then some WritePrinter.new else none }

/-- One print instruction of the fetch-execute loop. -/
def step (st : St) (i : Instr) : Except Err St :=
  match psStep st.ps i with
  | .error e => .error e
  | .ok (ps', none) => .ok { st with ps := ps' }
  | .ok (ps', some ops) =>
    match st.dev ps'.target with
    | none => .error .fileNotOpen
    | some p => .ok { ps := ps', dev := st.dev.set ps'.target (p.run ops) }

/-- A history of instructions; stops at the first error (no ON ERROR handler). -/
def run (st : St) : List Instr → Except Err St
  | [] => .ok st
  | i :: is =>
    match step st i with
    | .error e => .error e
    | .ok st' => run st' is

/-- Like `run`, but keeps the state reached before the failing instruction (what the sinks hold when the
program stops). -/
def runKeep (st : St) : List Instr → St × Option Err
  | [] => (st, none)
  | i :: is =>
    match step st i with
    | .error e => (st, some e)
    | .ok st' => runKeep st' is

/-! ## Statements and their lowering: `instruction_generator/print.rs` -/

inductive Arg where
  | expr (v : Value)
  | comma
  | semicolon
  deriving Repr, DecidableEq

/-- `rusty_parser::Print` with the expressions already evaluated. -/
structure Stmt where
  target : Device                 -- `lpt1` / `file_number`
  format : Option Value           -- `format_string` (its value)
  args : List Arg
  deriving Repr, DecidableEq

def lowerArg : Arg → Instr
  | .expr v => .valueFromA v
  | .comma => .comma
  | .semicolon => .semicolon

/-- `generate_opt_file_handle_instructions`. -/
def lowerTarget : Device → List Instr
  | .screen => [.setPrinterType .print]
  | .lpt1 => [.setPrinterType .lprint]
  | .file h => [.setPrinterType .file, .setFileHandle h]

/-- `generate_print_instructions` (`V_FALSE` = `int 0` stands for "no format string"). -/
def lower (s : Stmt) : List Instr :=
  lowerTarget s.target ++ [.setFormatStringFromA (s.format.getD (.int 0))] ++ s.args.map lowerArg ++ [.printEnd]

def lowerProgram (p : List Stmt) : List Instr := p.flatMap lower

/-! ## A PRINT statement abandoned by a trapped run-time error

When the evaluation of item number `k` of a PRINT list raises a run-time error under an active trap (ON ERROR RESUME
NEXT, or a handler ending in RESUME NEXT / RESUME), the statement's header instructions and the instructions of its
first `k` items have been executed and `PrintEnd` never is: the run continues at a statement address (the next
statement, the handler's statements, or the same statement from its start).  For the `PrintState` that is all there
is to it; where the run continues is C05's subject, the harness lays the history out statement by statement. -/

/-- The print instructions an abandoned statement executes: header, then the first `k` items; no `PrintEnd`. -/
def lowerAbandoned (s : Stmt) (k : Nat) : List Instr :=
  lowerTarget s.target ++ [.setFormatStringFromA (s.format.getD (.int 0))] ++ (s.args.take k).map lowerArg

/-- A statement of a history under an error trap: run to its end, or abandoned in front of item `k`. -/
inductive TStmt where
  | whole (s : Stmt)
  | abandoned (s : Stmt) (k : Nat)
  deriving Repr, DecidableEq

def lowerT : TStmt → List Instr
  | .whole s => lower s
  | .abandoned s k => lowerAbandoned s k

def lowerProgramT (p : List TStmt) : List Instr := p.flatMap lowerT

/-! ## PRINT lists that call a FUNCTION which itself prints: `main.rs` `PushRet` / `PopRet`

While the items of a PRINT statement are evaluated, a user FUNCTION may run, and its body may execute complete PRINT
statements of its own.  The interpreter saves the `PrintState` of the interrupted statement at `PushRet`
(`saved_print_states.push`) and restores it at `PopRet`; every statement begins by resetting the state
(`set_printer_type`). -/

/-- Print instructions plus the two call instructions that touch the `PrintState`. -/
inductive SInstr where
  | base (i : Instr)
  | pushRet
  | popRet
  deriving Repr, DecidableEq

/-- Runs a history with calls; `stack` is `saved_print_states`.  Like `runKeep`: stops at the first error and
returns the state reached before the failing instruction. -/
def runS (st : St) (stack : List PrintState) : List SInstr → St × Option Err
  | [] => (st, none)
  | .pushRet :: r => runS st (st.ps :: stack) r
  | .popRet :: r =>
    match stack with
    | ps :: stack' => runS { st with ps := ps } stack' r
    | [] => runS st [] r
  | .base i :: r =>
    match step st i with
    | .error e => (st, some e)
    | .ok st' => runS st' stack r

/-- An item of a PRINT list whose evaluation may call function number `f` (which returns `v`). -/
inductive XArg where
  | expr (v : Value)
  | comma
  | semicolon
  | call (f : Nat) (v : Value)
  deriving Repr, DecidableEq

structure XStmt where
  target : Device
  format : Option Value
  args : List XArg
  deriving Repr, DecidableEq

/-- Lowering of a statement whose items call functions `funcs[f]` (their bodies' PRINT statements): the call is
`PushRet`, the lowered body, `PopRet`, and then the item's `PrintValueFromA`.  `fuel` bounds the call depth. -/
def lowerX (funcs : List (List XStmt)) : Nat → XStmt → Option (List SInstr)
  | 0, _ => none
  | fuel + 1, s =>
    let lowerBody (body : List XStmt) : Option (List SInstr) :=
      body.foldr (fun b acc => match lowerX funcs fuel b, acc with
        | some x, some y => some (x ++ y)
        | _, _ => none) (some [])
    let lowerArgX (a : XArg) : Option (List SInstr) :=
      match a with
      | .expr v => some [.base (.valueFromA v)]
      | .comma => some [.base .comma]
      | .semicolon => some [.base .semicolon]
      | .call f v =>
        match funcs[f]? with
        | none => none
        | some body =>
          match lowerBody body with
          | none => none
          | some code => some (.pushRet :: code ++ [.popRet, .base (.valueFromA v)])
    let items := s.args.foldr (fun a acc => match lowerArgX a, acc with
        | some x, some y => some (x ++ y)
        | _, _ => none) (some [])
    match items with
    | none => none
    | some items =>
      some ((lowerTarget s.target ++ [Instr.setFormatStringFromA (s.format.getD (.int 0))]).map SInstr.base
        ++ items ++ [.base .printEnd])

def lowerProgramX (funcs : List (List XStmt)) (fuel : Nat) (p : List XStmt) : Option (List SInstr) :=
  p.foldr (fun s acc => match lowerX funcs fuel s, acc with
    | some x, some y => some (x ++ y)
    | _, _ => none) (some [])

end RbModel.Print
