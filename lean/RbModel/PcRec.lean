import RbModel.Pc
/-!
# `RbModel.PcRec` — recursive grammars through `lazy.rs lazy`

`lazy(factory)` builds its parser on the first `parse` (`LazyParser::decorated`) and then behaves like it
(`MapDecorator` with `map_ok = Ok`).  What `lazy` is *for* is recursion: the factory refers to the function that is
being defined, so the parser is unfolded one level per recursive descent.  `RbModel.Pc.PExpr.lazy` is the identity on
a finite, non-recursive tree; here the recursion itself is modelled:

* a **grammar table** `tbl : List GExpr`, entry `i` being the body of the `i`-th recursive parser function
  (`fn g_i() -> impl Parser { … lazy(|| g_j()) … }`),
* `GExpr.ref i` = `lazy(|| g_i())`,
* `GExpr.lift e` = a finite expression of the base model, and the combinators through which grammars recurse.

`runG tbl inp fuel e` interprets with a *descent fuel*: every constructor passes `fuel - 1` to its sub-parsers (the
fuel bounds the nesting depth of the evaluation, not its length), and `hang` is returned when it runs out.  A
left-recursive table runs out at every fuel (`RbThm.C20Rec.leftRec_hangs`): the real parser recurses until the stack
overflows.  The loops inside (`many`, `delimited`) keep the loop fuel `len + 3` of the base model.
-/
namespace RbModel.PcRec
open RbModel.Pc

inductive GExpr where
  | lift (e : PExpr)
  | ref (i : Nat)                                   -- `lazy(|| g_i())`
  | and (c : Cmb) (l r : GExpr)
  | or2 (a b : GExpr)                               -- `OrParser::new(vec![a, b])`
  | orNoBox (l r : GExpr)                           -- `l.or(r)`
  | seq2 (a b : GExpr) | seq3 (a b c : GExpr)
  | many (allowNone : Bool) (e : GExpr)
  | surround (mandatory : Bool) (l m r : GExpr)
  | delimited (allowMissing : Bool) (te : Nat) (e d : GExpr)
  | map (f : MapFn) (e : GExpr)
  | toOption (e : GExpr)
  deriving Repr

/-- The interpreter.  `fuel` = remaining nesting depth. -/
def runG (tbl : List GExpr) (inp : List Nat) : Nat → GExpr → P
  | 0, _ => fun _ => .hang
  | _ + 1, .lift e => run e inp
  | f + 1, .ref i =>
    match tbl[i]? with
    | some e => runG tbl inp f e
    | none => fun _ => .hang
  | f + 1, .and c l r => andP c (runG tbl inp f l) (runG tbl inp f r)
  | f + 1, .or2 a b => orBoxP (runG tbl inp f a) [runG tbl inp f b]
  | f + 1, .orNoBox l r => orNoBoxP (runG tbl inp f l) (runG tbl inp f r)
  | f + 1, .seq2 a b => seqP (runG tbl inp f a) [runG tbl inp f b]
  | f + 1, .seq3 a b c => seqP (runG tbl inp f a) [runG tbl inp f b, runG tbl inp f c]
  | f + 1, .many an e => manyP inp.length an (runG tbl inp f e)
  | f + 1, .surround md l m r => surroundP md (runG tbl inp f l) (runG tbl inp f m) (runG tbl inp f r)
  | f + 1, .delimited am te e d => delimitedP inp.length am te (runG tbl inp f e) (runG tbl inp f d)
  | f + 1, .map g e => mapP g (runG tbl inp f e)
  | f + 1, .toOption e => toOptionP (runG tbl inp f e)

/-- the descent fuel the driver uses: a run that ends never has the same `(entry, position)` twice on its descent
path, so it nests at most `tbl.length * (len + 1)` references, each separated by at most the depth of an entry. -/
def GExpr.depth : GExpr → Nat
  | .lift _ | .ref _ => 1
  | .and _ l r | .or2 l r | .orNoBox l r | .seq2 l r | .delimited _ _ l r => 1 + max l.depth r.depth
  | .seq3 a b c | .surround _ a b c => 1 + max a.depth (max b.depth c.depth)
  | .many _ e | .map _ e | .toOption e => 1 + e.depth

def driverFuel (tbl : List GExpr) (e : GExpr) (len : Nat) : Nat :=
  e.depth + (tbl.length * (len + 1) + 1) * ((tbl.map GExpr.depth).foldl max 0 + 1) + 1

end RbModel.PcRec
