import RbModel.Ref
/-!
The respellings of property C02 as functions on the core syntax (`RbModel.Ast.Stmt`), statement
contexts (a statement with one hole), and the enumeration of the rewrite sites of a program.

* `whileToDo`        WHILE c … WEND              ↦ DO WHILE c … LOOP
* `untilToWhileNot`  DO/LOOP UNTIL c             ↦ DO/LOOP WHILE NOT (c)        (c a comparison)
* `forAddStep1`      FOR x = a TO b              ↦ FOR x = a TO b STEP 1
* `wrapLoopBody`     <loop> body                 ↦ <loop> IF -1 THEN body END IF
* `selectToIf z`     SELECT CASE e …             ↦ z = e : IF z … THEN … ELSE IF … (z a fresh variable)
* `forToWhile zl zs` FOR x = a TO b [STEP s]     ↦ x = a : zl = b : [zs = s :] WHILE x <= zl … x = x + s … WEND
                                                   (sign of the step decided once; zl, zs fresh)

Nothing here is a model of Rust code: these are the *statements of the rewrites* the theorems of
`Thm/C02.lean` are about; the harness applies the same rewrites to program text.
-/
namespace RbModel.Rewrite
open RbModel RbModel.Num RbModel.Ast
open RbModel.Ast (Expr)

/-! ### which variables a piece of syntax mentions -/

def usesE (zs : List Nat) : Ast.Expr → Bool
  | .lit _ _ => false
  | .var x _ _ => zs.contains x
  | .un _ e _ => usesE zs e
  | .bin _ l r _ _ => usesE zs l || usesE zs r
  | .paren e _ => usesE zs e

def usesItem (zs : List Nat) : PrintItem → Bool
  | .expr e => usesE zs e
  | _ => false

def usesCase (zs : List Nat) : CaseExpr → Bool
  | .simple e => usesE zs e
  | .is _ e => usesE zs e
  | .range a b => usesE zs a || usesE zs b

def usesStep (zs : List Nat) : Option Ast.Expr → Bool
  | none => false
  | some e => usesE zs e

mutual
/-- the statement reads or writes one of the variables `zs` -/
def usesS (zs : List Nat) : Stmt → Bool
  | .skip => false
  | .seq a b => usesS zs a || usesS zs b
  | .assign x _ e _ => zs.contains x || usesE zs e
  | .print items _ => items.any (usesItem zs)
  | .read x _ _ => zs.contains x
  | .ifs c t e _ => usesE zs c || usesS zs t || usesS zs e
  | .select e cs _ => usesE zs e || usesC zs cs
  | .forLoop x _ lo hi step body _ =>
      zs.contains x || usesE zs lo || usesE zs hi || usesStep zs step || usesS zs body
  | .while c b _ => usesE zs c || usesS zs b
  | .doLoop c _ _ b _ => usesE zs c || usesS zs b
  | .end_ _ => false
def usesC (zs : List Nat) : Cases → Bool
  | .nil => false
  | .else_ b => usesS zs b
  | .case conds b rest => conds.any (usesCase zs) || usesS zs b || usesC zs rest
end

/-! ### the rewrites -/

def isRel : Op → Bool
  | .less | .lessOrEqual | .equal | .greaterOrEqual | .greater | .notEqual => true
  | _ => false

/-- syntactic comparisons: a relational operator at the top (through parentheses and NOT) -/
def isCmp : Ast.Expr → Bool
  | .bin op _ _ _ _ => isRel op
  | .paren e _ => isCmp e
  | .un .not e _ => isCmp e
  | _ => false

def whileToDo : Stmt → Option Stmt
  | .while c body p => some (.doLoop c true false body p)
  | _ => none

/-- `NOT (c)` -/
def notE (c : Ast.Expr) : Ast.Expr := .un .not (.paren c c.pos) c.pos

def untilToWhileNot : Stmt → Option Stmt
  | .doLoop c top true body p => if isCmp c then some (.doLoop (notE c) top false body p) else none
  | _ => none

def forAddStep1 : Stmt → Option Stmt
  | .forLoop x t lo hi none body p => some (.forLoop x t lo hi (some (.lit (.int 1) p)) body p)
  | _ => none

/-- the literal the parser produces for `-1` -/
def trueE (p : Pos) : Ast.Expr := .lit (.int (-1)) p

/-- `IF -1 THEN body END IF` -/
def wrapTrue (body : Stmt) (p : Pos) : Stmt := .ifs (trueE p) body .skip p

def wrapLoopBody : Stmt → Option Stmt
  | .forLoop x t lo hi st body p => some (.forLoop x t lo hi st (.seq (wrapTrue body p) .skip) p)
  | .while c body p => some (.while c (.seq (wrapTrue body p) .skip) p)
  | .doLoop c top u body p => some (.doLoop c top u (.seq (wrapTrue body p) .skip) p)
  | _ => none

/-- `z op e` -/
def relE (op : Op) (z : Nat) (tz : Ty) (e : Ast.Expr) (q : Pos) : Ast.Expr :=
  .bin op (.var z tz q) e .int q

/-- the tests of one CASE line, in order, each guarding a copy of the block; `lo TO hi` tests the
upper bound only when the lower bound test succeeded (as SELECT CASE does) -/
def chainItems (z : Nat) (tz : Ty) (q : Pos) (body rest : Stmt) : List CaseExpr → Stmt
  | [] => rest
  | .simple e :: more =>
      .ifs (relE .equal z tz e q) body (chainItems z tz q body rest more) q
  | .is op e :: more =>
      .ifs (relE op z tz e q) body (chainItems z tz q body rest more) q
  | .range lo hi :: more =>
      .ifs (relE .greaterOrEqual z tz lo q)
        (.ifs (relE .lessOrEqual z tz hi q) body (chainItems z tz q body rest more) q)
        (chainItems z tz q body rest more) q

def chain (z : Nat) (tz : Ty) (q : Pos) : Cases → Stmt
  | .nil => .skip
  | .else_ body => body
  | .case conds body rest => chainItems z tz q body (chain z tz q rest) conds

/-- `SELECT CASE e …` as `z = e` followed by the IF chain; `z` holds a value of `e`'s own type -/
def selectToIf (z : Nat) : Stmt → Option Stmt
  | .select e cs p => some (.seq (.assign z e.ty e p) (chain z e.ty p cs))
  | _ => none

/-- CASE IS carries a relational operator (what the parser produces) -/
def condsWF (conds : List CaseExpr) : Bool :=
  conds.all fun c => match c with | .is op _ => isRel op | _ => true

def casesWF : Cases → Bool
  | .nil => true
  | .else_ _ => true
  | .case conds _ rest => condsWF conds && casesWF rest

/-- `x = x + s` where `tres` is the static type of the sum -/
def incr (x : Nat) (t : Ty) (sE : Ast.Expr) (tres : Ty) (q : Pos) : Stmt :=
  .assign x t (.bin .plus (.var x t q) sE tres q) q

/-- `WHILE x <= zl : body : x = x + s : WEND` (`>=` when counting down) -/
def countLoop (up : Bool) (x : Nat) (t : Ty) (zl : Nat) (sE : Ast.Expr) (tres : Ty) (body : Stmt) (q : Pos) : Stmt :=
  .while (.bin (if up then .lessOrEqual else .greaterOrEqual) (.var x t q) (.var zl t q) .int q)
    (.seq body (incr x t sE tres q)) q

/-- sign of a constant step, when it has one -/
def constSign : Val → Option Bool
  | .int i => if i > 0 then some true else if i < 0 then some false else none
  | .long i => if i > 0 then some true else if i < 0 then some false else none
  | _ => none

/-- FOR as WHILE. `zl` receives the limit (converted to the counter's type); a step that is not a
whole-number literal is stored in `zs` (its own type) and its sign is decided once, before the loop.
`tres` is the static type of `x + step` (the linter's `binType .plus t stepType`). -/
def forToWhile (zl zs : Nat) (tres : Ty) : Stmt → Option Stmt
  | .forLoop x t lo hi step body p =>
    let pre (rest : Stmt) : Stmt := .seq (.assign x t lo p) (.seq (.assign zl t hi p) rest)
    match step with
    | none => some (pre (countLoop true x t zl (.lit (.int 1) p) tres body p))
    | some se =>
      match se with
      | .lit v _ =>
        match constSign v with
        | some up => some (pre (countLoop up x t zl se tres body p))
        | none => none
      | _ =>
        let sv : Ast.Expr := .var zs se.ty p
        some (pre (.seq (.assign zs se.ty se p)
          (.ifs (.bin .less sv (.lit (.int 0) p) .int p)
            (countLoop false x t zl sv tres body p)
            (.ifs (.bin .greater sv (.lit (.int 0) p) .int p)
              (countLoop true x t zl sv tres body p)
              .skip p) p)))
  | _ => none

/-- static type of the step as `forToWhile` sees it -/
def stepTy : Option Ast.Expr → Ty
  | none => .int
  | some e => e.ty

/-! ### contexts: a statement with one hole -/

mutual
inductive Ctx where
  | hole
  | seqL (c : Ctx) (b : Stmt)
  | seqR (a : Stmt) (c : Ctx)
  | ifThen (cond : Ast.Expr) (c : Ctx) (els : Stmt) (p : Pos)
  | ifElse (cond : Ast.Expr) (thn : Stmt) (c : Ctx) (p : Pos)
  | whileBody (cond : Ast.Expr) (c : Ctx) (p : Pos)
  | doBody (cond : Ast.Expr) (top until_ : Bool) (c : Ctx) (p : Pos)
  | forBody (x : Nat) (t : Ty) (lo hi : Ast.Expr) (step : Option Ast.Expr) (c : Ctx) (p : Pos)
  | selectIn (e : Ast.Expr) (cc : CasesCtx) (p : Pos)
inductive CasesCtx where
  | elseBody (c : Ctx)
  | caseBody (conds : List CaseExpr) (c : Ctx) (rest : Cases)
  | caseRest (conds : List CaseExpr) (body : Stmt) (cc : CasesCtx)
end

mutual
def Ctx.fill : Ctx → Stmt → Stmt
  | .hole, st => st
  | .seqL c b, st => .seq (c.fill st) b
  | .seqR a c, st => .seq a (c.fill st)
  | .ifThen cond c els p, st => .ifs cond (c.fill st) els p
  | .ifElse cond thn c p, st => .ifs cond thn (c.fill st) p
  | .whileBody cond c p, st => .while cond (c.fill st) p
  | .doBody cond top u c p, st => .doLoop cond top u (c.fill st) p
  | .forBody x t lo hi step c p, st => .forLoop x t lo hi step (c.fill st) p
  | .selectIn e cc p, st => .select e (cc.fill st) p
def CasesCtx.fill : CasesCtx → Stmt → Cases
  | .elseBody c, st => .else_ (c.fill st)
  | .caseBody conds c rest, st => .case conds (c.fill st) rest
  | .caseRest conds body cc, st => .case conds body (cc.fill st)
end

mutual
/-- the context (not the hole) mentions one of `zs` -/
def Ctx.uses (zs : List Nat) : Ctx → Bool
  | .hole => false
  | .seqL c b => c.uses zs || usesS zs b
  | .seqR a c => usesS zs a || c.uses zs
  | .ifThen cond c els _ => usesE zs cond || c.uses zs || usesS zs els
  | .ifElse cond thn c _ => usesE zs cond || usesS zs thn || c.uses zs
  | .whileBody cond c _ => usesE zs cond || c.uses zs
  | .doBody cond _ _ c _ => usesE zs cond || c.uses zs
  | .forBody x _ lo hi step c _ =>
      zs.contains x || usesE zs lo || usesE zs hi || usesStep zs step || c.uses zs
  | .selectIn e cc _ => usesE zs e || cc.uses zs
def CasesCtx.uses (zs : List Nat) : CasesCtx → Bool
  | .elseBody c => c.uses zs
  | .caseBody conds c rest => conds.any (usesCase zs) || c.uses zs || usesC zs rest
  | .caseRest conds body cc => conds.any (usesCase zs) || usesS zs body || cc.uses zs
end

/-! ### rewrite sites: every sub-statement together with its context, in source order -/

mutual
def sites : Stmt → List (Ctx × Stmt)
  | .seq a b =>
      (Ctx.hole, .seq a b) :: ((sites a).map fun (c, st) => (Ctx.seqL c b, st))
        ++ ((sites b).map fun (c, st) => (Ctx.seqR a c, st))
  | .ifs cond thn els p =>
      (Ctx.hole, .ifs cond thn els p) :: ((sites thn).map fun (c, st) => (Ctx.ifThen cond c els p, st))
        ++ ((sites els).map fun (c, st) => (Ctx.ifElse cond thn c p, st))
  | .select e cs p =>
      (Ctx.hole, .select e cs p) :: ((sitesC cs).map fun (cc, st) => (Ctx.selectIn e cc p, st))
  | .forLoop x t lo hi step body p =>
      (Ctx.hole, .forLoop x t lo hi step body p)
        :: ((sites body).map fun (c, st) => (Ctx.forBody x t lo hi step c p, st))
  | .while cond body p =>
      (Ctx.hole, .while cond body p) :: ((sites body).map fun (c, st) => (Ctx.whileBody cond c p, st))
  | .doLoop cond top u body p =>
      (Ctx.hole, .doLoop cond top u body p) :: ((sites body).map fun (c, st) => (Ctx.doBody cond top u c p, st))
  | st => [(Ctx.hole, st)]
def sitesC : Cases → List (CasesCtx × Stmt)
  | .nil => []
  | .else_ body => (sites body).map fun (c, st) => (CasesCtx.elseBody c, st)
  | .case conds body rest =>
      ((sites body).map fun (c, st) => (CasesCtx.caseBody conds c rest, st))
        ++ ((sitesC rest).map fun (cc, st) => (CasesCtx.caseRest conds body cc, st))
end

inductive Kind where
  | while_ | do_ | for_ | select | loop
  deriving DecidableEq

def Kind.test : Kind → Stmt → Bool
  | .while_, .while .. => true
  | .do_, .doLoop .. => true
  | .for_, .forLoop .. => true
  | .select, .select .. => true
  | .loop, .while .. => true
  | .loop, .doLoop .. => true
  | .loop, .forLoop .. => true
  | _, _ => false

/-- the `idx`-th sub-statement of kind `k` (source order) with its context -/
def siteAt (k : Kind) (idx : Nat) (st : Stmt) : Option (Ctx × Stmt) :=
  ((sites st).filter fun (_, sub) => k.test sub)[idx]?

/-- apply rewrite `f` at the `idx`-th sub-statement of kind `k`: `none` = no such site,
`some none` = the rewrite does not apply there -/
def applyAt (k : Kind) (f : Stmt → Option Stmt) (idx : Nat) (st : Stmt) : Option (Option Stmt) :=
  match siteAt k idx st with
  | none => none
  | some (c, sub) => some ((f sub).map c.fill)

end RbModel.Rewrite
