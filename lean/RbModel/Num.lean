import RbModel.Bits
/-!
# The shared numeric model

Model of the tagged values of `rusty_variant/src/variant.rs` (`Variant::{VInteger, VLong, VSingle,
VDouble, VString}`), of the dynamic arithmetic on them (`plus`, `minus`, `multiply`, `divide`, `modulo`,
`negate`, `unary_not`, `and`, `or`, `try_cmp`), of `rusty_variant/src/fit.rs` (`FitToType`) and of the
range-checked conversions of `rusty_linter/src/core/qb_casting.rs` (`QBNumberCast`, `CastVariant::cast`).

* INTEGER and LONG payloads are unbounded `Int` plus explicit range predicates (the code carries an INTEGER
  in an `i32` and a LONG in an `i64`; the `checked_*` machine operations of the repaired `+ - *` cannot
  overflow the machine type for payloads inside the BASIC ranges, so `Int` plus the range test *is* the code).
* SINGLE and DOUBLE payloads are exact rationals (core `Rat`) **inside an explicit exact domain**
  (`inS`, `inD`): dyadic rationals whose significand fits the format (24 / 53 bits), denominator at most
  `2^40` / `2^60`, magnitude at most `2^100`.  Every value of the domain is exactly representable in
  binary32 / binary64, so an IEEE operation whose exact result is again in the domain returns exactly that
  result.  Every float operation of the model returns `Res.inexact` when an operand, an intermediate
  conversion (`i64 as f32`) or the exact result leaves the domain; nothing is claimed about those
  executions.  All in-domain values are finite and at most `2^100` in magnitude (far below the largest binary32 number, `2^128`), therefore the
  `NotFiniteNumber` branch of `QBNumberCast`, the `Overflow` branch of `f64 → f32` and the
  "result is not finite → Overflow" branches of the float arms of `+ - * /` are not reachable in the
  model (those executions are `inexact`; the harness checks them on the real code against the property).
* The thresholds of the approximate comparisons (`0.00001`) and of `fit_to_type` (`0.0001`) are the exact
  rational values of the respective `f32` / `f64` literals.
-/
namespace RbModel.Num

/-- `rusty_parser::TypeQualifier` (`%`, `&`, `!`, `#`, `$`). -/
inductive Ty where
  | int | long | sgl | dbl | str
  deriving DecidableEq, Repr, Inhabited

/-- `rusty_parser::Operator`. -/
inductive Op where
  | plus | minus | multiply | divide | modulo
  | less | lessOrEqual | equal | greaterOrEqual | greater | notEqual
  | and | or
  deriving DecidableEq, Repr, Inhabited

/-- `VariantError` / the `LintError`s of `QBNumberCast`. -/
inductive Err where
  | divisionByZero | overflow | typeMismatch
  deriving DecidableEq, Repr, Inhabited

/-- Outcome of a modelled operation: a value, a BASIC error, or "the exact result leaves the exact
domain of the float model" (no claim). -/
inductive Res (α : Type) where
  | ok (a : α)
  | err (e : Err)
  | inexact
  deriving DecidableEq, Repr

/-- `Variant` (numeric and string alternatives). -/
inductive Val where
  | int (i : Int)
  | long (i : Int)
  | sgl (q : Rat)
  | dbl (q : Rat)
  | str (s : List Char)
  deriving DecidableEq, Inhabited

def Res.bind {α β : Type} : Res α → (α → Res β) → Res β
  | .ok a, f => f a
  | .err e, _ => .err e
  | .inexact, _ => .inexact

def Val.tag : Val → Ty
  | .int _ => .int
  | .long _ => .long
  | .sgl _ => .sgl
  | .dbl _ => .dbl
  | .str _ => .str

/-! ### Ranges and the exact domain -/

def minInt : Int := -32768
def maxInt : Int := 32767
def minLong : Int := -2147483648
def maxLong : Int := 2147483647

/-- `IsInRange::is_in_integer_range`. -/
def inIntRange (n : Int) : Bool := decide (-32768 ≤ n) && decide (n ≤ 32767)
/-- `IsInRange::is_in_long_range`. -/
def inLongRange (n : Int) : Bool := decide (-2147483648 ≤ n) && decide (n ≤ 2147483647)

/-- `n` is `m * 2^j` with `m < 2^p`: its significand fits `p` bits. -/
def sigFits (p n : Nat) : Bool := n == 0 || n % 2 ^ (n.log2 + 1 - p) == 0

/-- Exact domain: dyadic (`den ∣ 2^k`), significand of `p` bits, magnitude at most `2^100`
(no code path converts an unchecked float through `as i64` any more: `fit_to_type` guards it with `< 9.0e18`). -/
def inDom (p k : Nat) (q : Rat) : Bool :=
  (2 ^ k % q.den == 0) && sigFits p q.num.natAbs && decide (q.num.natAbs ≤ 2 ^ 100 * q.den)

/-- Exact domain of SINGLE (a subset of the binary32 numbers). -/
def inS (q : Rat) : Bool := inDom 24 40 q
/-- Exact domain of DOUBLE (a subset of the binary64 numbers). -/
def inD (q : Rat) : Bool := inDom 53 60 q

/-- The value is one its type can hold: whole number in −32768..32767, whole number in
−2147483648..2147483647, single / double of the exact domain, any string. -/
def Val.InRange : Val → Prop
  | .int i => inIntRange i = true
  | .long i => inLongRange i = true
  | .sgl q => inS q = true
  | .dbl q => inD q = true
  | .str _ => True

instance (v : Val) : Decidable v.InRange := by
  cases v <;> unfold Val.InRange <;> infer_instance

/-- A single with the given exact value, if the domain has it. -/
def mkSgl (q : Rat) : Res Val := if inS q then .ok (.sgl q) else .inexact
/-- A double with the given exact value, if the domain has it. -/
def mkDbl (q : Rat) : Res Val := if inD q then .ok (.dbl q) else .inexact

def absQ (q : Rat) : Rat := if q < 0 then -q else q

/-- `f32::round` / `f64::round`: nearest whole number, ties away from zero. -/
def roundHA (q : Rat) : Int := if 0 ≤ q then (q + 1 / 2).floor else -((-q + 1 / 2).floor)

/-- The numeric payload as a rational. -/
def Val.toRat? : Val → Option Rat
  | .int i => some (i : Rat)
  | .long i => some (i : Rat)
  | .sgl q => some q
  | .dbl q => some q
  | .str _ => none

/-! ### Thresholds (exact values of the Rust literals) -/

/-- `0.0001_f32` (`FitToType for f32`). -/
def thrFitS : Rat := 13743895 / 2 ^ 37
/-- `0.0001_f64` (`FitToType for f64`). -/
def thrFitD : Rat := 7378697629483821 / 2 ^ 66
/-- `0.00001_f32` (`ApproximateCmp for f32`, `ApproximateEqToInt for f32`). -/
def thrEqS : Rat := 2748779 / 2 ^ 38
/-- `0.00001_f64` (`ApproximateCmp for f64`, `ApproximateEqToInt for f64`). -/
def thrEqD : Rat := 5902958103587057 / 2 ^ 69

/-! ### `fit.rs` -/

/-- `FitToType for i64` (and `for i32`): INTEGER if it fits, else LONG if it fits, else DOUBLE
(`self as f64`, exact only when the significand fits). -/
def fitInt (n : Int) : Res Val :=
  if inIntRange n then .ok (.int n)
  else if inLongRange n then .ok (.long n)
  else mkDbl (n : Rat)

/-- `FitToType for f32`: `diff = self - self.round()` is exact for every binary32 number.  For a whole
number the code has two arms: `|round| < 9.0e18` → `(round as i64).fit_to_type()` (no saturation below `2^63`),
else `VDouble(round as f64)`.  Both are `fitInt (roundHA q)` here: `fitInt` of a whole number beyond the LONG
range *is* the DOUBLE holding that number (`RbThm.C06.fitInt_beyond_long`), and `f32 → f64` is exact. -/
def fitS (q : Rat) : Res Val :=
  if inS q then
    if absQ (q - (roundHA q : Rat)) > thrFitS then .ok (.sgl q) else fitInt (roundHA q)
  else .inexact

/-- `FitToType for f64` (same two arms, same remark). -/
def fitD (q : Rat) : Res Val :=
  if inD q then
    if absQ (q - (roundHA q : Rat)) > thrFitD then .ok (.dbl q) else fitInt (roundHA q)
  else .inexact

/-! ### `qb_casting.rs` -/

/-- `QBNumberCast<i32> for f32/f64` and `QBNumberCast<i64> for f32/f64`:
round half away from zero, then compare with the bounds, else `Overflow`. -/
def castRound (lo hi : Int) (q : Rat) : Res Int :=
  let r := roundHA q
  if lo ≤ r ∧ r ≤ hi then .ok r else .err .overflow

/-- `CastVariant::cast` (with `QBNumberCast<_> for Variant`). Floats are taken from the exact domain
(an out-of-domain payload answers `inexact`). `VInteger → INTEGER` and `VLong → LONG` are the identity
(no range test in the code). -/
def cast (v : Val) (t : Ty) : Res Val :=
  match t, v with
  | .sgl, .sgl q => .ok (.sgl q)
  | .sgl, .dbl q => if inD q then mkSgl q else .inexact
  | .sgl, .int i => mkSgl (i : Rat)
  | .sgl, .long i => mkSgl (i : Rat)
  | .dbl, .sgl q => if inS q then mkDbl q else .inexact
  | .dbl, .dbl q => .ok (.dbl q)
  | .dbl, .int i => mkDbl (i : Rat)
  | .dbl, .long i => mkDbl (i : Rat)
  | .int, .sgl q => if inS q then (castRound minInt maxInt q).bind (fun r => .ok (.int r)) else .inexact
  | .int, .dbl q => if inD q then (castRound minInt maxInt q).bind (fun r => .ok (.int r)) else .inexact
  | .int, .int i => .ok (.int i)
  | .int, .long i => if inIntRange i then .ok (.int i) else .err .overflow
  | .long, .sgl q => if inS q then (castRound minLong maxLong q).bind (fun r => .ok (.long r)) else .inexact
  | .long, .dbl q => if inD q then (castRound minLong maxLong q).bind (fun r => .ok (.long r)) else .inexact
  | .long, .int i => .ok (.long i)
  | .long, .long i => .ok (.long i)
  | .str, .str s => .ok (.str s)
  | _, _ => .err .typeMismatch

/-! ### `variant.rs`: arithmetic -/

inductive Arith where
  | add | sub | mul
  deriving DecidableEq, Repr

/-- The operator an arithmetic skeleton instance stands for. -/
def Arith.toOp : Arith → Op
  | .add => .plus
  | .sub => .minus
  | .mul => .multiply

def Arith.onInt : Arith → Int → Int → Int
  | .add, a, b => a + b
  | .sub, a, b => a - b
  | .mul, a, b => a * b

def Arith.onRat : Arith → Rat → Rat → Rat
  | .add, a, b => a + b
  | .sub, a, b => a - b
  | .mul, a, b => a * b

/-- `integer_result`: the INTEGER result of `+ - *`, range-checked. -/
def intResult (n : Int) : Res Val := if inIntRange n then .ok (.int n) else .err .overflow
/-- `long_result`: the LONG result of `+ - *`, range-checked. -/
def longResult (n : Int) : Res Val := if inLongRange n then .ok (.long n) else .err .overflow

/-- A binary32 operation on two binary32 operands (`i32 as f32` / `i64 as f32` must be exact). -/
def sglOp (op : Arith) (a b : Rat) : Res Val :=
  if inS a && inS b then mkSgl (op.onRat a b) else .inexact
/-- A binary64 operation (`f32 as f64`, `i32 as f64`, `i64 as f64` must be exact). -/
def dblOp (op : Arith) (a b : Rat) : Res Val :=
  if inD a && inD b then mkDbl (op.onRat a b) else .inexact

/-- `Variant::plus`, `Variant::minus`, `Variant::multiply`.
The flipped arms of the code (`other.plus(self)`, `other.minus(self).and_then(negate)`,
`other.multiply(self)`) compute the same exact value: negating a float is exact, and
`LONG - INTEGER` is computed directly. -/
def arith (op : Arith) (a b : Val) : Res Val :=
  match a, b with
  | .int x, .int y => intResult (op.onInt x y)
  | .int x, .long y => longResult (op.onInt x y)
  | .long x, .int y => longResult (op.onInt x y)
  | .long x, .long y => longResult (op.onInt x y)
  | .sgl x, .sgl y => sglOp op x y
  | .sgl x, .int y => sglOp op x (y : Rat)
  | .sgl x, .long y => sglOp op x (y : Rat)
  | .int x, .sgl y => sglOp op (x : Rat) y
  | .long x, .sgl y => sglOp op (x : Rat) y
  | .dbl x, .dbl y => dblOp op x y
  | .dbl x, .sgl y => dblOp op x y
  | .dbl x, .int y => dblOp op x (y : Rat)
  | .dbl x, .long y => dblOp op x (y : Rat)
  | .sgl x, .dbl y => dblOp op x y
  | .int x, .dbl y => dblOp op (x : Rat) y
  | .long x, .dbl y => dblOp op (x : Rat) y
  | .str s, .str t => if op = .add then .ok (.str (s ++ t)) else .err .typeMismatch
  | _, _ => .err .typeMismatch

def plus : Val → Val → Res Val := arith .add
def minus : Val → Val → Res Val := arith .sub
def multiply : Val → Val → Res Val := arith .mul

/-- `Variant::negate`. -/
def negate : Val → Res Val
  | .sgl q => .ok (.sgl (-q))
  | .dbl q => .ok (.dbl (-q))
  | .int n => if n ≤ minInt then .err .overflow else .ok (.int (-n))
  | .long n => if n ≤ minLong then .err .overflow else .ok (.long (-n))
  | .str _ => .err .typeMismatch

/-- `Variant::unary_not`: `-n - 1` on whole numbers, `-f.round() - 1.0` on floats. -/
def unaryNot : Val → Res Val
  | .sgl q => if inS q then mkSgl (-(roundHA q : Rat) - 1) else .inexact
  | .dbl q => if inD q then mkDbl (-(roundHA q : Rat) - 1) else .inexact
  | .int n => .ok (.int (-n - 1))
  | .long n => .ok (.long (-n - 1))
  | .str _ => .err .typeMismatch

/-- `ApproximateEqToInt::approximate_eq(0)` / `Variant::is_approximately_zero`. -/
def isApproxZero : Val → Option Bool
  | .sgl q => some (decide (absQ q < thrEqS))
  | .dbl q => some (decide (absQ q < thrEqD))
  | .int n => some (n == 0)
  | .long n => some (n == 0)
  | .str _ => none

def Val.isDbl : Val → Bool
  | .dbl _ => true
  | _ => false

/-- `Variant::divide` (the `div!` macro): zero test on the divisor in its own type, quotient in `f64`
when an operand is a DOUBLE and in `f32` otherwise, then `fit_to_type`. -/
def divide (a b : Val) : Res Val :=
  match a.toRat?, b.toRat?, isApproxZero b with
  | some x, some y, some z =>
    if z then .err .divisionByZero
    else if a.isDbl || b.isDbl then
      (if inD x && inD y then fitD (x / y) else .inexact)
    else
      (if inS x && inS y then fitS (x / y) else .inexact)
  | _, _, _ => .err .typeMismatch

/-- `Variant::round` (private; used by `modulo`). -/
def roundV : Val → Res Val
  | .sgl q => if inS q then fitInt (roundHA q) else .inexact
  | .dbl q => if inD q then fitInt (roundHA q) else .inexact
  | .int n => .ok (.int n)
  | .long n => .ok (.long n)
  | .str _ => .err .typeMismatch

/-- `Variant::modulo`: both operands rounded, zero test, then only INTEGER `%` INTEGER
(remainder with the sign of the dividend) is carried out. -/
def modulo (a b : Val) : Res Val :=
  (roundV a).bind fun ra =>
  (roundV b).bind fun rb =>
    match isApproxZero rb with
    | none => .err .typeMismatch
    | some true => .err .divisionByZero
    | some false =>
      match ra, rb with
      | .int x, .int y => .ok (.int (x.tmod y))
      | _, _ => .err .overflow

/-- `Variant::and` (INTEGER operands only; the VM casts both operands to INTEGER first). -/
def and (a b : Val) : Res Val :=
  match a, b with
  | .int x, .int y => .ok (.int (RbModel.Bits.qbAnd x y))
  | _, _ => .err .typeMismatch

/-- `Variant::or`. -/
def or (a b : Val) : Res Val :=
  match a, b with
  | .int x, .int y => .ok (.int (RbModel.Bits.qbOr x y))
  | _, _ => .err .typeMismatch

/-! ### `variant.rs`: comparison -/

/-- `ApproximateCmp::cmp`: `diff = left - right` in the given format, compared with ±threshold. -/
def approxCmp (dom : Rat → Bool) (thr : Rat) (l r : Rat) : Res Ordering :=
  if dom l && dom r && dom (l - r) then
    if l - r < -thr then .ok .lt else if l - r > thr then .ok .gt else .ok .eq
  else .inexact

def cmpInt (a b : Int) : Ordering := if a < b then .lt else if a = b then .eq else .gt

/-- `str::cmp`: lexicographic by code point (= by UTF-8 byte). -/
def cmpStr : List Char → List Char → Ordering
  | [], [] => .eq
  | [], _ :: _ => .lt
  | _ :: _, [] => .gt
  | a :: as, b :: bs =>
    if a.toNat < b.toNat then .lt else if a.toNat > b.toNat then .gt else cmpStr as bs

/-- `Variant::try_cmp`. The flipped arms (`other.try_cmp(self).map(reverse)`) give the same
ordering because the thresholds are symmetric and negation is exact. -/
def tryCmp (a b : Val) : Res Ordering :=
  match a, b with
  | .int x, .int y => .ok (cmpInt x y)
  | .int x, .long y => .ok (cmpInt x y)
  | .long x, .int y => .ok (cmpInt x y)
  | .long x, .long y => .ok (cmpInt x y)
  | .sgl x, .sgl y => approxCmp inS thrEqS x y
  | .sgl x, .int y => approxCmp inS thrEqS x (y : Rat)
  | .sgl x, .long y => approxCmp inS thrEqS x (y : Rat)
  | .int x, .sgl y => approxCmp inS thrEqS (x : Rat) y
  | .long x, .sgl y => approxCmp inS thrEqS (x : Rat) y
  | .dbl x, .dbl y => approxCmp inD thrEqD x y
  | .dbl x, .sgl y => approxCmp inD thrEqD x y
  | .dbl x, .int y => approxCmp inD thrEqD x (y : Rat)
  | .dbl x, .long y => approxCmp inD thrEqD x (y : Rat)
  | .sgl x, .dbl y => approxCmp inD thrEqD x y
  | .int x, .dbl y => approxCmp inD thrEqD (x : Rat) y
  | .long x, .dbl y => approxCmp inD thrEqD (x : Rat) y
  | .str s, .str t => .ok (cmpStr s t)
  | _, _ => .err .typeMismatch

/-- `V_TRUE` / `V_FALSE` (`From<bool> for Variant`). -/
def ofBool (b : Bool) : Val := .int (if b then -1 else 0)

/-- The predicate a relational operator applies to the ordering (`handlers/comparison.rs`). -/
def relHolds : Op → Ordering → Bool
  | .less, o => o == .lt
  | .lessOrEqual, o => o == .lt || o == .eq
  | .equal, o => o == .eq
  | .greaterOrEqual, o => o == .gt || o == .eq
  | .greater, o => o == .gt
  | .notEqual, o => o != .eq
  | _, _ => false

/-! ### The VM's binary and unary instructions -/

/-- What the generated code of `BinaryExpression(op, l, r, _)` computes from the two operand values
(`instruction_generator/expression.rs` + `interpreter/handlers/{math, logical, comparison}.rs`):
`Plus/Minus/Multiply/Modulo` call the `Variant` operation, `Divide` is followed by `Cast(q)` with the
statically resolved type `q = st .divide t1 t2`, `And/Or` cast both operands to INTEGER first, the
relational instructions turn `try_cmp` into −1 / 0.  `st` is the linter's typing function
(`cast_binary_op`), extracted into `Gen.NumTables.binType`. -/
def vmBin (st : Op → Ty → Ty → Option Ty) (op : Op) (a b : Val) : Res Val :=
  match op with
  | .plus => plus a b
  | .minus => minus a b
  | .multiply => multiply a b
  | .divide =>
    match st .divide a.tag b.tag with
    | some t => (divide a b).bind fun q => cast q t
    | none => .err .typeMismatch
  | .modulo => modulo a b
  | .and => (cast a .int).bind fun x => (cast b .int).bind fun y => and x y
  | .or => (cast a .int).bind fun x => (cast b .int).bind fun y => or x y
  | rel => (tryCmp a b).bind fun o => .ok (ofBool (relHolds rel o))

/-- `generate_expression_instructions_casting`: a `Cast(target)` is emitted only when the static
type of the expression differs from the target's. -/
def storeCast (staticTy target : Ty) (v : Val) : Res Val :=
  if staticTy = target then .ok v else cast v target

/-! ### Expressions and the store step

A small expression language over the operations above, with the linter's static typing (`Expr.ty`,
as `expression_type()` computes it after linting) and the VM's evaluation (`Expr.eval`), and the one
way a value reaches a numeric location in the generated code (`store`): evaluate the expression,
emit `Cast(target)` iff the static type differs from the target's, copy A to the location.
That is the code of assignments, by-value parameter bindings, FOR initialisations and FUNCTION results
(`generate_expression_instructions_casting` followed by `CopyAToVarPath`). -/

inductive UnOp where
  | neg | not
  deriving DecidableEq, Repr

inductive Expr where
  | lit (v : Val)
  | var (x : Nat)
  | un (op : UnOp) (e : Expr)
  | bin (op : Op) (l r : Expr)

/-- `expression_type()`: literals by their tag, variables by declaration, unary expressions by their
operand, binary expressions by `cast_binary_op`. `none`: rejected by the linter. -/
def Expr.ty (st : Op → Ty → Ty → Option Ty) (decl : Nat → Ty) : Expr → Option Ty
  | .lit v => some v.tag
  | .var x => some (decl x)
  | .un _ e => e.ty st decl
  | .bin op l r =>
    match l.ty st decl, r.ty st decl with
    | some a, some b => st op a b
    | _, _ => none

/-- Evaluation by the VM (`generate_expression_instructions` + the handlers). -/
def Expr.eval (st : Op → Ty → Ty → Option Ty) (env : Nat → Val) : Expr → Res Val
  | .lit v => .ok v
  | .var x => .ok (env x)
  | .un .neg e => (e.eval st env).bind negate
  | .un .not e => (e.eval st env).bind unaryNot
  | .bin op l r => (l.eval st env).bind fun a => (r.eval st env).bind fun b => vmBin st op a b

/-- Every literal of the expression is a value of its own type (what the parser produces). -/
def Expr.LitsInRange : Expr → Prop
  | .lit v => v.InRange
  | .var _ => True
  | .un _ e => e.LitsInRange
  | .bin _ l r => l.LitsInRange ∧ r.LitsInRange

/-- `x = e` (also: by-value parameter `x` bound to `e`, `FOR x = e`, `FunctionName = e`). -/
def store (st : Op → Ty → Ty → Option Ty) (decl : Nat → Ty) (env : Nat → Val) (x : Nat) (e : Expr) :
    Res (Nat → Val) :=
  match e.ty st decl with
  | none => .err .typeMismatch
  | some s =>
    (e.eval st env).bind fun v =>
    (storeCast s (decl x) v).bind fun w =>
    .ok (fun y => if y = x then w else env y)

/-- The invariant: every variable holds a value of its declared type, in range. -/
def WellTyped (decl : Nat → Ty) (env : Nat → Val) : Prop :=
  ∀ x, (env x).tag = decl x ∧ (env x).InRange

end RbModel.Num
