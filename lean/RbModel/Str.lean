/-
Model of the string built-ins of `rusty_basic/src/interpreter/built_ins/`:
`left.rs, right.rs, mid_fn.rs (do_mid), instr.rs (do_instr), len.rs, ucase.rs, lcase.rs, ltrim.rs,
rtrim.rs, space.rs, string_fn.rs, chr.rs, str_fn.rs, val.rs` and the argument checks
`to_non_negative_int` / `to_positive_int` of `interpreter/variant_casts.rs`.

Strings are `List Nat`: the list of the code points of the Rust `String`'s `chars()` (QBasic characters
are the code points 0..255; nothing below depends on that bound except `utf8Len`).  Integer arguments are
`Int`s that already went through `try_cast::<i32>` (rounding/overflow of that cast belongs to C06).

The model is written for the code as repaired by the `fix:` commits of this property and 3f6a134 (VAL always returns a DOUBLE) (SPACE$ argument
check; RIGHT$, MID$, INSTR count characters; LTRIM$/RTRIM$ strip blanks only; CHR$ range check).  The
section `Legacy` at the end keeps the byte/character-mixing bodies of the pinned tree, to state (in
Thm/C17.lean) exactly what was wrong with them.
-/
namespace RbModel.Str

/-- The run-time errors the built-ins can raise (`RuntimeError`), with `get_code` below. -/
inductive Err where
  | illegalFunctionCall
  | overflow
  deriving DecidableEq, Repr

/-- `RuntimeError::get_code`. -/
def Err.code : Err → Nat
  | .illegalFunctionCall => 5
  | .overflow => 6

/-- `VariantCasts::to_non_negative_int` after the `i32` cast. -/
def toNonNegativeInt (i : Int) : Except Err Nat :=
  if i ≥ 0 then .ok i.toNat else .error .illegalFunctionCall

/-- `VariantCasts::to_positive_int` after the `i32` cast. -/
def toPositiveInt (i : Int) : Except Err Nat :=
  if i > 0 then .ok i.toNat else .error .illegalFunctionCall

/-- String concatenation (`Variant::plus` on two `VString`s: `format!("{}{}", a, b)`). -/
def concat (a b : List Nat) : List Nat := a ++ b

/-- `len.rs` on a `VString`: `byte_size` = `s.chars().count()`. -/
def len (s : List Nat) : Nat := s.length

/-- `left.rs`: `s.chars().take(count).collect()`. -/
def left (s : List Nat) (n : Int) : Except Err (List Nat) :=
  match toNonNegativeInt n with
  | .error e => .error e
  | .ok count => .ok (s.take count)

/-- `right.rs` (repaired): `let len = s.chars().count(); if len > count { s.chars().skip(len - count) } else { s }`. -/
def right (s : List Nat) (n : Int) : Except Err (List Nat) :=
  match toNonNegativeInt n with
  | .error e => .error e
  | .ok count =>
    let len := s.length
    if len > count then .ok (s.drop (len - count)) else .ok s

/-- `mid_fn.rs::do_mid` (repaired): `s.chars().skip(start - 1)`, then `.take(length)` if a length is given. -/
def doMid (s : List Nat) (start : Nat) (optLength : Option Nat) : List Nat :=
  let startIndex := start - 1
  match optLength with
  | some length => (s.drop startIndex).take length
  | none => s.drop startIndex

/-- `mid_fn.rs::run`: `start` must be positive, the optional `length` non-negative. -/
def mid (s : List Nat) (start : Int) (optLength : Option Int) : Except Err (List Nat) :=
  match toPositiveInt start with
  | .error e => .error e
  | .ok st =>
    match optLength with
    | none => .ok (doMid s st none)
    | some l =>
      match toNonNegativeInt l with
      | .error e => .error e
      | .ok length => .ok (doMid s st (some length))

/-- The `while i + needle.len() <= hay.len()` loop of `do_instr` (repaired: `hay`, `needle` are the
character vectors).  `fuel` bounds the number of iterations (`hay.len() + 1` is always enough). -/
def instrLoop (hay needle : List Nat) : Nat → Nat → Nat
  | 0, _ => 0
  | fuel + 1, i =>
    if i + needle.length ≤ hay.length then
      if (hay.drop i).take needle.length = needle then i + 1
      else instrLoop hay needle fuel (i + 1)
    else 0

/-- `instr.rs::do_instr`. -/
def doInstr (start : Nat) (hay needle : List Nat) : Nat :=
  if hay.isEmpty then 0
  else if needle.isEmpty then 1
  else instrLoop hay needle (hay.length + 1) (start - 1)

/-- `instr.rs::run` with the optional start position (`None` = 1). -/
def instr (start : Option Int) (hay needle : List Nat) : Except Err Nat :=
  match start with
  | none => .ok (doInstr 1 hay needle)
  | some n =>
    match toPositiveInt n with
    | .error e => .error e
    | .ok st => .ok (doInstr st hay needle)

/-- `u8::to_ascii_uppercase` lifted to a code point (bytes ≥ 128 of a UTF-8 sequence are untouched,
so on characters only `a..z` change). -/
def ucaseChar (c : Nat) : Nat := if 97 ≤ c ∧ c ≤ 122 then c - 32 else c

/-- `u8::to_ascii_lowercase` lifted to a code point. -/
def lcaseChar (c : Nat) : Nat := if 65 ≤ c ∧ c ≤ 90 then c + 32 else c

/-- `ucase.rs`: `s.to_ascii_uppercase()`. -/
def ucase (s : List Nat) : List Nat := s.map ucaseChar

/-- `lcase.rs`: `s.to_ascii_lowercase()`. -/
def lcase (s : List Nat) : List Nat := s.map lcaseChar

/-- `ltrim.rs` (repaired): `s.trim_start_matches(' ')`. -/
def ltrim (s : List Nat) : List Nat := s.dropWhile (· == 32)

/-- `rtrim.rs` (repaired): `s.trim_end_matches(' ')`. -/
def rtrim (s : List Nat) : List Nat := (s.reverse.dropWhile (· == 32)).reverse

/-- `space.rs` (repaired): non-negative count, then `count` pushes of `' '`. -/
def space (n : Int) : Except Err (List Nat) :=
  match toNonNegativeInt n with
  | .error e => .error e
  | .ok count => .ok (List.replicate count 32)

/-- `string_fn.rs::run_with_ascii_code_argument`. -/
def stringCode (n : Int) (ascii : Int) : Except Err (List Nat) :=
  match toNonNegativeInt n with
  | .error e => .error e
  | .ok count =>
    if 0 ≤ ascii ∧ ascii ≤ 255 then .ok (List.replicate count ascii.toNat)
    else .error .illegalFunctionCall

/-- `string_fn.rs::run_with_string_argument`: first character of the string, error if empty. -/
def stringStr (n : Int) (s : List Nat) : Except Err (List Nat) :=
  match toNonNegativeInt n with
  | .error e => .error e
  | .ok count =>
    match s with
    | [] => .error .illegalFunctionCall
    | c :: _ => .ok (List.replicate count c)

/-- `chr.rs` (repaired): codes outside 0..255 are an Illegal function call. -/
def chr (i : Int) : Except Err (List Nat) :=
  if 0 ≤ i ∧ i ≤ 255 then .ok [i.toNat] else .error .illegalFunctionCall

/-! ### STR$ and VAL on whole numbers -/

/-- Standard decimal digits of a natural number, as character codes (what `format!("{}", n)` is
assumed to print for a non-negative integer). -/
def decimal (n : Nat) : List Nat :=
  if n < 10 then [48 + n] else decimal (n / 10) ++ [48 + n % 10]
decreasing_by omega

/-- `str_fn.rs` `str_fmt!` on `VInteger`/`VLong`: a leading blank for `k >= 0`, else what `format!`
prints for a negative integer (`-` and the digits of `|k|`). -/
def strInt (k : Int) : List Nat :=
  if k ≥ 0 then 32 :: decimal k.toNat else 45 :: decimal (-k).toNat

/-- `str_fn.rs` `str_fmt!` on a `VDouble`/`VSingle` whose value is the whole number `k` (and not the
negative zero): Rust's `Display` for floats prints a whole value as its plain decimal digits, without a
fractional part and without an exponent, so the text is the one of the integer arms. -/
def strWholeFloat (k : Int) : List Nat := strInt k

/-- The scanner states of `val.rs`. -/
inductive VState where
  | initial | sign | int | dot | fraction
  deriving DecidableEq, Repr

/-- What `val` returns: always a `Variant::VDouble` (VAL is a DOUBLE function).  The double is given by its
sign and its magnitude, a natural number below 2^53 (every such number is an `f64`); `double true 0` is
the negative zero that `VDouble(0.0).negate()` yields for `VAL("-0")`.  The fractional path is not modelled. -/
inductive VRes where
  | double (negative : Bool) (magnitude : Nat)
  deriving DecidableEq, Repr

/-- The numeric value of the double (`-0.0` and `0.0` are both 0). -/
def VRes.toInt : VRes → Int
  | .double false m => (m : Int)
  | .double true m => -(m : Int)

/-- 2^53: below it every natural number is an `f64` and `value * 10.0 + d` is computed exactly. -/
def exactLimit : Nat := 9007199254740992

/-- The `for c in s.chars()` loop of `val.rs::val`, integer path.  Returns `none` when the scan leaves
the modelled fragment: a digit after the decimal point (needs `f64` division) or a value ≥ 2^53
(`f64` rounding).  `break` = return the accumulator. -/
def valScan : List Nat → Bool → Nat → VState → Option (Bool × Nat × VState)
  | [], pos, v, st => some (pos, v, st)
  | c :: cs, pos, v, st =>
    if 48 ≤ c ∧ c ≤ 57 then
      if st = .dot ∨ st = .fraction then none
      else
        let v' := v * 10 + (c - 48)
        if v' ≥ exactLimit then none else valScan cs pos v' .int
    else if c = 32 then valScan cs pos v st
    else if c = 46 then
      if st = .dot ∨ st = .fraction then some (pos, v, st) else valScan cs pos v .dot
    else if c = 45 then
      if st = .initial then valScan cs false v .sign else some (pos, v, st)
    else if c = 43 then
      if st = .initial then valScan cs pos v .sign else some (pos, v, st)
    else some (pos, v, st)

/-- The end of `val.rs::val`: `VDouble(0.0)` when no digit and no decimal point was seen, otherwise
`VDouble(value)`, negated when a minus sign was seen (no re-tagging to the smallest fitting type). -/
def valFinish (pos : Bool) (v : Nat) (st : VState) : VRes :=
  if st = .initial ∨ st = .sign then .double false 0
  else .double (!pos) v

/-- `val.rs::val` on the integer path (`none`: outside the modelled fragment). -/
def val (s : List Nat) : Option VRes :=
  match valScan s true 0 .initial with
  | none => none
  | some (pos, v, st) => if st = .fraction then none else some (valFinish pos v st)

/-! ### Legacy: the byte/character-mixing bodies of the pinned tree (before the `fix:` commits) -/

/-- Number of UTF-8 bytes of a character 0..255 as Rust stores it: 1 below 128, 2 above. -/
def utf8LenChar (c : Nat) : Nat := if c < 128 then 1 else 2

/-- `str::len()`: number of UTF-8 bytes. -/
def utf8Len (s : List Nat) : Nat := (s.map utf8LenChar).sum

def allAscii (s : List Nat) : Prop := ∀ c ∈ s, c < 128

instance (s : List Nat) : Decidable (allAscii s) := by unfold allAscii; infer_instance

/-- `right.rs` of the pinned tree: `if s.len() > count { s.chars().skip(s.len() - count) } else { s }`
(byte length against a character count). -/
def rightLegacy (s : List Nat) (n : Int) : Except Err (List Nat) :=
  match toNonNegativeInt n with
  | .error e => .error e
  | .ok count =>
    if utf8Len s > count then .ok (s.drop (utf8Len s - count)) else .ok s

/-- `space.rs` of the pinned tree: `for _ in 0..len` with an unchecked (possibly negative) `len`. -/
def spaceLegacy (n : Int) : Except Err (List Nat) := .ok (List.replicate n.toNat 32)

end RbModel.Str
