import RbModel.Proc.Ref
import RbModel.Proc.Vm
/-!
# RbModel.Proc.Spec — PROPOSED statement of the phase-B simulation theorem (definitions only, nothing proved)

`CompileCorrect` is the statement `Proc.compile_correct` phase B should prove, with the invariants it is expected to
need spelled out as definitions so that they type-check against the three models.  Everything here is a `def … : Prop`;
there is no theorem, no `sorry`, no axiom.  Shapes follow `Thm/C01SimBase.lean` (`Steps`, `Rel`, `StmtSpec`).

Expected proof structure: induction on the fuel of `Ref.exec` / `Ref.eval` / `Ref.call` (as `StmtIH` in C01), every
C01 case lemma ported with the extra parameters (`lay`, FOR/SELECT depth, the context prefix), plus
* `ExprSpec` for `callFn` and `StmtSpec` for `callSub` from one lemma `call_correct` (prologue: `ArgsSpec`; frame
  creation: `freshEnv` vs `vs.map some` through `FrameRel`; body by the induction hypothesis at smaller fuel; `PopRet`;
  epilogue = `Thm.C03Call.byref_writeback` / `function_result` transported to this VM);
* `exitProc`: needs `ActInv` (the register frames and SELECT subjects pushed since the activation's `PushRet`).
-/
namespace RbModel.Proc.Spec
open RbModel RbModel.Num RbModel.Proc RbModel.Proc.Compile RbModel.Proc.Vm
open RbModel.Ast (Pos)

/-- zero or more `next` steps -/
inductive Steps (code : Code) : Vm → Vm → Prop where
  | refl (σ : Vm) : Steps code σ σ
  | cons {σ σ' σ'' : Vm} : step code σ = .next σ' → Steps code σ' σ'' → Steps code σ σ''

/-- `code` contains `c` at address `off` -/
def CodeAt (code : Code) (off : Nat) (c : Code) : Prop :=
  ∀ i, i < c.length → code[off + i]? = c[i]?

/-- a VM frame represents a reference environment over the slot table `slots`: every slot reads the same value
(a never-created variable reads as zero of its type) -/
def FrameRel (slots : List Ty) (fr : Frame) (env : List Val) : Prop :=
  env.length = slots.length ∧ ∀ x t, slots[x]? = some t → getVar fr x t = env.getD x (zeroOf t)

/-- the states above the current frame are argument-collecting states (calls whose argument lists are being
evaluated: names still resolve in the frame below them) -/
def Collecting : List CtxState → Prop
  | [] => True
  | .args _ :: rest => Collecting rest
  | .frame _ :: _ => False
  | .sframe _ :: _ => False

/-- the relation between a reference state and a VM state inside one activation with slot table `slots`, whose frame
sits under the collecting prefix `pre` and above the (untouched) rest `below` of the context stack -/
def Rel (slots : List Ty) (pre below : List CtxState) (s : Ref.St) (σ : Vm) : Prop :=
  Collecting pre ∧
  (∃ fr, σ.ctx = pre ++ .frame fr :: below ∧ FrameRel slots fr s.env) ∧
  σ.out = s.out ∧ σ.data = s.data ∧ σ.dataIdx = s.dataIdx ∧
  σ.queue = [] ∧ σ.funRes = none

/-- what a construct leaves alone: value stack, path stack, register stack below the current frame of registers,
return addresses and marks, stack trace (registers B, C, D of the current frame may change: a callee's FOR header
writes C and D) -/
def SameStacks (σ σ' : Vm) : Prop :=
  σ'.vals = σ.vals ∧ σ'.paths = σ.paths ∧ σ'.regStack = σ.regStack ∧ σ'.rets = σ.rets ∧ σ'.marks = σ.marks ∧
  σ'.trace = σ.trace ∧ σ'.skipNewline = σ.skipNewline

/-- every procedure's code lies at its layout address -/
def ProcsAt (code : Code) (lay : Layout) (procs : List (ProcDecl SStmt)) : Prop :=
  lay.length = procs.length ∧
  ∀ f d, procs[f]? = some d → CodeAt code (lay.addr f) (compileProc lay (lay.addr f) d)

/-- the run ends in an error `(c, p)` with the output `out` -/
def ErrsWith (code : Code) (σ : Vm) (c : Nat) (p : Pos) (out : Print.WritePrinter) : Prop :=
  ∃ σ1 σ2, Steps code σ σ1 ∧ step code σ1 = .error c p σ2 ∧ σ2.out = out

/-- the run halts (END / SYSTEM, also inside a procedure) with the output `out` -/
def HaltsWith (code : Code) (σ : Vm) (out : Print.WritePrinter) : Prop :=
  ∃ σ1 σ2, Steps code σ σ1 ∧ step code σ1 = .halt σ2 ∧ σ2.out = out

/-- expression evaluation (`Ref.eval`) vs the code of `compileExpr` at `off` -/
def ExprSpec (P : Program) (code : Code) (lay : Layout) (slots : List Ty) (fuel : Nat) (e : Expr) : Prop :=
  ∀ off pre below s σ, CodeAt code off (compileExpr lay off e) → σ.pc = off → Rel slots pre below s σ →
    match Ref.eval P fuel e s with
    | (s', .ok v) =>
      ∃ σ', Steps code σ σ' ∧ σ'.pc = off + sizeExpr e ∧ σ'.regs.a = v ∧ Rel slots pre below s' σ' ∧ SameStacks σ σ'
    | (s', .error (.error c p)) => ErrsWith code σ c p s'.out
    | (s', .error .halted) => HaltsWith code σ s'.out
    | _ => True

/-- invariant of an activation needed by `EXIT SUB / FUNCTION` at FOR depth `fd` and SELECT depth `sd`: since the
activation's `PushRet` exactly `fd` register frames were pushed, and `sd` SELECT subjects lie on top of the value stack -/
def ActInv (fd sd : Nat) (σ : Vm) : Prop :=
  (∃ a rets, σ.rets = a :: rets) ∧ (∃ m marks, σ.marks = m :: marks ∧ σ.regStack.length + 1 = m + fd) ∧
  sd ≤ σ.vals.length

/-- statement execution (`Ref.exec`) vs the code of `compileStmt` at `off` -/
def StmtSpec (P : Program) (code : Code) (lay : Layout) (slots : List Ty) (fuel : Nat) (st : SStmt) : Prop :=
  ∀ sfx fd sd off below s σ, CodeAt code off (compileStmt lay sfx fd sd off st) → σ.pc = off →
    Rel slots [] below s σ → σ.paths = [] → σ.skipNewline = false → ActInv fd sd σ →
    match Ref.exec P fuel (desugar st) s with
    | (s', .normal) =>
      ∃ σ', Steps code σ σ' ∧ σ'.pc = off + sizeStmt fd sd st ∧ Rel slots [] below s' σ' ∧ SameStacks σ σ'
    | (s', .exited) =>
      -- the activation's `PopRet` has run: back at the return address, register stack cut to the mark,
      -- the SELECT subjects dropped, the callee frame still on top (the caller's epilogue pops it)
      ∃ σ' a rets m marks, Steps code σ σ' ∧ σ.rets = a :: rets ∧ σ.marks = m :: marks ∧ σ'.pc = a ∧
        σ'.rets = rets ∧ σ'.marks = marks ∧ σ'.regStack.length + 1 = m ∧ σ'.vals = σ.vals.drop sd ∧
        Rel slots [] below s' σ' ∧ σ'.trace = σ.trace
    | (s', .halted) => HaltsWith code σ s'.out
    | (s', .error c p) => ErrsWith code σ c p s'.out
    | _ => True

/-- PROPOSED main theorem (`Proc.compile_correct`): under a decidable static premise on the linted program
(expected: `SProgram.wf` + C01's `wfTopB` per scope over that scope's slot table, + `ProcDecl.wfSlots`), whatever the
reference semantics says about a run — normal end, END, or error `(code, position)` with the output so far — the VM
model does on the model-compiled code. -/
def CompileCorrect (Premise : SProgram → Prop) : Prop :=
  ∀ (prog : SProgram) (fuel : Nat), Premise prog →
    match Ref.run fuel prog.toAst with
    | (s, .normal) => HaltsWith (compile prog) Vm.init s.out
    | (s, .halted) => HaltsWith (compile prog) Vm.init s.out
    | (s, .error c p) => ErrsWith (compile prog) Vm.init c p s.out
    | _ => True

end RbModel.Proc.Spec
