import RbModel.Proc.Syntax
import RbModel.Ref
/-!
# RbModel.Proc.Ref — big-step reference semantics with SUB / FUNCTION calls (property C03, phase A)

The reference semantics of C01 (`RbModel.Ref`) extended with procedure calls; the SPECIFICATION side of the
tie: written from the language rules (property C03's text), not from the generator or the VM.

What a call does (`call`):
1. the actual arguments are evaluated left to right in the CALLER's environment, each converted to the type of
   its parameter (`storeCast`: no conversion when the static type already is the parameter type — in
   particular never for a by-reference actual); an argument expression may itself call functions (output,
   write-backs and errors of those calls happen then, in order);
2. an ordinary procedure gets a fresh activation environment: the parameter slots hold the argument values,
   every other slot (locals, result variable) holds zero / the empty string — also for a recursive activation;
   a STATIC procedure has ONE environment for the whole run (`St.statics f`, all zero at the start): a call
   rebinds the parameter slots in it, resets the result variable of a FUNCTION to zero / empty and leaves every
   other slot as the previous activation left it — a
   recursive activation works on the same environment (so the outer activation finds its parameters and
   locals as the inner one left them);
3. the body runs in that environment; `DIM SHARED` variables (`St.glob`) are one store for all scopes;
   `EXIT SUB/FUNCTION` (`exited`) ends the body normally; `END` (`halted`), an error, `inexact`
   or `outOfFuel` end the whole run;
4. write-back, left to right: for every actual that is a plain variable `x` (`Expr.isRef`), `x` in the
   caller's environment receives the final value of the corresponding parameter (so the rightmost wins
   when one variable is passed twice, and a write-back overwrites what a function called in a LATER argument
   wrote to the same variable: by-reference is copy-in at evaluation time / copy-out after the call);
5. a FUNCTION yields the final value of its result variable (the last value assigned to its name, zero /
   empty if none).

Because a function call may occur in any expression, expression evaluation threads the state and everything
is one mutual recursion on fuel (each constructor consumes one unit; the helpers `evalTo`, `evalCond`,
`printItems`, `caseMatches`, `anyMatches` do too).  Errors are `(code, position)` and end the run; the
position of a failed by-value conversion is the argument's position.

Global (not per-activation) state: the output printer, the DATA items and the READ cursor, the DIM SHARED
variables, the environments of the STATIC procedures.
-/
namespace RbModel.Proc.Ref
open RbModel RbModel.Num RbModel.Proc
open RbModel.Ast (Pos)

abbrev codeOf := _root_.RbModel.Ref.codeOf
abbrev binStep := _root_.RbModel.Ref.binStep
abbrev printValue := _root_.RbModel.Ref.printValue
abbrev truthy := _root_.RbModel.Ref.truthy
def codeOutOfData : Nat := 4
def codeZeroStep : Nat := 258

structure St where
  /-- the environment of the CURRENT activation when it is not an activation of a STATIC procedure -/
  env : List Val
  /-- `some f`: the current activation belongs to the STATIC procedure `f`; its variables are `statics f` -/
  self : Option Nat
  /-- the DIM SHARED variables -/
  glob : List Val
  /-- the persistent environment of every (STATIC) procedure -/
  statics : Nat → List Val
  out : Print.WritePrinter
  data : List Val
  dataIdx : Nat

inductive Outcome where
  | normal
  /-- EXIT SUB / EXIT FUNCTION: leaves the enclosing blocks of the current procedure body -/
  | exited
  /-- END / SYSTEM: the whole run ends normally -/
  | halted
  | error (code : Nat) (p : Pos)
  | inexact
  | outOfFuel
  /-- a call of a procedure that does not exist (excluded by `SProgram.wf`) -/
  | illFormed
  deriving Inhabited

/-- the variables of the current activation -/
def St.locals (s : St) : List Val :=
  match s.self with
  | none => s.env
  | some f => s.statics f

def St.setLocal (s : St) (i : Nat) (v : Val) : St :=
  match s.self with
  | none => { s with env := s.env.set i v }
  | some f => { s with statics := fun g => if g = f then (s.statics f).set i v else s.statics g }

/-- the value of a variable (a slot that was never written reads as zero of its type) -/
def St.get (s : St) (x : Var) (t : Ty) : Val :=
  if x.shared then s.glob.getD x.slot (zeroOf t) else s.locals.getD x.slot (zeroOf t)

def St.set (s : St) (x : Var) (v : Val) : St :=
  if x.shared then { s with glob := s.glob.set x.slot v } else s.setLocal x.slot v

def liftR (s : St) (p : Pos) : Res Val → St × Except Outcome Val
  | .ok v => (s, .ok v)
  | .err e => (s, .error (.error (codeOf e) p))
  | .inexact => (s, .error .inexact)

def endsInSeparator : List PrintItem → Bool
  | [] => false
  | [.comma] => true
  | [.semicolon] => true
  | [_] => false
  | _ :: rest => endsInSeparator rest

def relTest (p : Pos) (op : Op) (a b : Val) : Except Outcome Bool :=
  match tryCmp a b with
  | .ok o => .ok (relHolds op o)
  | .err e => .error (.error (codeOf e) p)
  | .inexact => .error .inexact

inductive StepSign where
  | neg | pos | zero

def stepSign (p : Pos) (s : Val) : Except Outcome StepSign :=
  match relTest p .less s (.int 0) with
  | .error o => .error o
  | .ok true => .ok .neg
  | .ok false =>
    match relTest p .greater s (.int 0) with
    | .error o => .error o
    | .ok true => .ok .pos
    | .ok false => .ok .zero

/-- the activation environment of a call: argument values, then zero for every other slot -/
def freshEnv (slots : List Ty) (vals : List Val) : List Val :=
  vals ++ (slots.drop vals.length).map zeroOf

/-- the environment of a STATIC procedure at the start of a call: the parameters are rebound, every other slot
keeps the value it has -/
def rebind (old vals : List Val) : List Val := vals ++ old.drop vals.length

/-- by-reference write-back, left to right: `i` = index of the argument = slot of its parameter; `callee` = the
callee's variables when it returned, `s` = the state back in the caller's activation -/
def writeBack : Args → Nat → List Val → St → St
  | .nil, _, _, s => s
  | .cons (.var x t _) _ _ rest, i, callee, s =>
    writeBack rest (i + 1) callee (s.set x (callee.getD i (zeroOf t)))
  | .cons _ _ _ rest, i, callee, s => writeBack rest (i + 1) callee s

/-- the callee's activation with the parameters bound, `s1` = the caller's state after the arguments -/
def enterCore (d : ProcDecl Stmt) (f : Nat) (vals : List Val) (s1 : St) : St :=
  if d.static then
    { s1 with self := some f, statics := fun g => if g = f then rebind (s1.statics f) vals else s1.statics g }
  else { s1 with self := none, env := freshEnv d.slots vals }

/-- the state in which the body of `d` (procedure `f`) starts: the result variable of a STATIC FUNCTION is not one of
the variables that persist — every call starts with the result at zero / the empty string (for an ordinary FUNCTION the
fresh environment has it at zero anyway) -/
def enter (d : ProcDecl Stmt) (f : Nat) (vals : List Val) (s1 : St) : St :=
  match d.static, d.result with
  | true, some rt => (enterCore d f vals s1).set ⟨false, d.resultSlot⟩ (zeroOf rt)
  | _, _ => enterCore d f vals s1

/-- does the body's outcome let the call return? -/
def returns : Outcome → Bool
  | .normal => true
  | .exited => true
  | _ => false

mutual
def eval (P : Program) : Nat → Expr → St → St × Except Outcome Val
  | 0, _, s => (s, .error .outOfFuel)
  | _ + 1, .lit v _, s => (s, .ok v)
  | _ + 1, .var x t _, s => (s, .ok (s.get x t))
  | fuel + 1, .un op e p, s =>
    match eval P fuel e s with
    | (s1, .ok v) => liftR s1 p (match op with | .neg => negate v | .not => unaryNot v)
    | r => r
  | fuel + 1, .bin op l r t p, s =>
    match eval P fuel l s with
    | (s1, .ok a) =>
      match eval P fuel r s1 with
      | (s2, .ok b) => liftR s2 p (binStep op t a b)
      | r => r
    | r => r
  | fuel + 1, .paren e _, s => eval P fuel e s
  | fuel + 1, .callFn f args _ _, s => call P fuel f args s
/-- the value of an expression converted to the type of the location that receives it -/
def evalTo (P : Program) : Nat → Expr → Ty → St → St × Except Outcome Val
  | 0, _, _, s => (s, .error .outOfFuel)
  | fuel + 1, e, target, s =>
    match eval P fuel e s with
    | (s1, .ok v) => liftR s1 e.pos (storeCast e.ty target v)
    | r => r
def evalArgs (P : Program) : Nat → Args → St → St × Except Outcome (List Val)
  | 0, _, s => (s, .error .outOfFuel)
  | _ + 1, .nil, s => (s, .ok [])
  | fuel + 1, .cons e _ pt rest, s =>
    match evalTo P fuel e pt s with
    | (s1, .error o) => (s1, .error o)
    | (s1, .ok v) =>
      match evalArgs P fuel rest s1 with
      | (s2, .error o) => (s2, .error o)
      | (s2, .ok vs) => (s2, .ok (v :: vs))
/-- a call of procedure `f`; the value is the FUNCTION's result (`int 0` for a SUB, unused) -/
def call (P : Program) : Nat → Nat → Args → St → St × Except Outcome Val
  | 0, _, _, s => (s, .error .outOfFuel)
  | fuel + 1, f, args, s =>
    match P.procs[f]? with
    | none => (s, .error .illFormed)
    | some d =>
      match evalArgs P fuel args s with
      | (s1, .error o) => (s1, .error o)
      | (s1, .ok vals) =>
        match exec P fuel d.body (enter d f vals s1) with
        | (s2, o) =>
          if returns o then
            let res := match d.result with
              | some rt => s2.locals.getD d.resultSlot (zeroOf rt)
              | none => .int 0
            -- back in the caller's activation: its own environment is as it was (nothing else can name it);
            -- the SHARED variables and the STATIC environments are as the callee left them
            (writeBack args 0 s2.locals { s2 with env := s1.env, self := s1.self }, .ok res)
          else (s2, .error o)
def printItems (P : Program) : Nat → List PrintItem → St → St × Outcome
  | 0, _, s => (s, .outOfFuel)
  | _ + 1, [], s => (s, .normal)
  | fuel + 1, .comma :: rest, s => printItems P fuel rest { s with out := s.out.moveToNextPrintZone }
  | fuel + 1, .semicolon :: rest, s => printItems P fuel rest s
  | fuel + 1, .expr e :: rest, s =>
    match eval P fuel e s with
    | (s1, .error o) => (s1, o)
    | (s1, .ok v) =>
      match printValue v with
      | none => (s1, .inexact)
      | some pv => printItems P fuel rest { s1 with out := s1.out.print (Print.valueText pv) }
def evalCond (P : Program) : Nat → Expr → St → St × Except Outcome Bool
  | 0, _, s => (s, .error .outOfFuel)
  | fuel + 1, c, s =>
    match eval P fuel c s with
    | (s1, .error o) => (s1, .error o)
    | (s1, .ok v) =>
      match truthy v with
      | some b => (s1, .ok b)
      | none => (s1, .error (.error 13 c.pos))
def caseMatches (P : Program) : Nat → Pos → Val → CaseExpr → St → St × Except Outcome Bool
  | 0, _, _, _, s => (s, .error .outOfFuel)
  | fuel + 1, p, subject, .simple e, s =>
    match eval P fuel e s with
    | (s1, .error o) => (s1, .error o)
    | (s1, .ok v) => (s1, relTest p .equal subject v)
  | fuel + 1, p, subject, .is op e, s =>
    match eval P fuel e s with
    | (s1, .error o) => (s1, .error o)
    | (s1, .ok v) => (s1, relTest p op subject v)
  | fuel + 1, p, subject, .range lo hi, s =>
    match eval P fuel lo s with
    | (s1, .error o) => (s1, .error o)
    | (s1, .ok l) =>
      match relTest p .greaterOrEqual subject l with
      | .error o => (s1, .error o)
      | .ok false => (s1, .ok false)
      | .ok true =>
        match eval P fuel hi s1 with
        | (s2, .error o) => (s2, .error o)
        | (s2, .ok h) => (s2, relTest p .lessOrEqual subject h)
def anyMatches (P : Program) : Nat → Pos → Val → List CaseExpr → St → St × Except Outcome Bool
  | 0, _, _, _, s => (s, .error .outOfFuel)
  | _ + 1, _, _, [], s => (s, .ok false)
  | fuel + 1, p, subject, c :: rest, s =>
    match caseMatches P fuel p subject c s with
    | (s1, .error o) => (s1, .error o)
    | (s1, .ok true) => (s1, .ok true)
    | (s1, .ok false) => anyMatches P fuel p subject rest s1
/-- `exec P fuel stmt state`: the state after the statement (output included) and how it ended -/
def exec (P : Program) : Nat → Stmt → St → St × Outcome
  | 0, _, s => (s, .outOfFuel)
  | _ + 1, .skip, s => (s, .normal)
  | fuel + 1, .seq a b, s =>
    match exec P fuel a s with
    | (s', .normal) => exec P fuel b s'
    | r => r
  | fuel + 1, .assign x t e _, s =>
    match evalTo P fuel e t s with
    | (s1, .ok v) => (s1.set x v, .normal)
    | (s1, .error o) => (s1, o)
  | fuel + 1, .print items _, s =>
    match printItems P fuel items s with
    | (s', .normal) =>
      if endsInSeparator items then (s', .normal) else ({ s' with out := s'.out.println }, .normal)
    | r => r
  | _ + 1, .read x t p, s =>
    match s.data[s.dataIdx]? with
    | none => (s, .error codeOutOfData p)
    | some v =>
      match cast v t with
      | .ok w => ({ s.set x w with dataIdx := s.dataIdx + 1 }, .normal)
      | .err e => (s, .error (codeOf e) p)
      | .inexact => (s, .inexact)
  | fuel + 1, .ifs c thn els _, s =>
    match evalCond P fuel c s with
    | (s1, .error o) => (s1, o)
    | (s1, .ok true) => exec P fuel thn s1
    | (s1, .ok false) => exec P fuel els s1
  | fuel + 1, .select e cases p, s =>
    match eval P fuel e s with
    | (s1, .error o) => (s1, o)
    | (s1, .ok subject) => execCases P fuel p subject cases s1
  | fuel + 1, .forLoop x t lo hi step body p, s =>
    match evalTo P fuel lo t s with
    | (s1, .error o) => (s1, o)
    | (s1, .ok l) =>
      match evalTo P fuel hi t (s1.set x l) with
      | (s2, .error o) => (s2, o)
      | (s2, .ok h) =>
        match step with
        | none => forIter P fuel x t h (.int 1) true body p s2
        | some se =>
          match eval P fuel se s2 with
          | (s3, .error o) => (s3, o)
          | (s3, .ok sv) =>
            match stepSign p sv with
            | .error o => (s3, o)
            | .ok .neg => forIter P fuel x t h sv false body p s3
            | .ok .pos => forIter P fuel x t h sv true body p s3
            | .ok .zero => (s3, .error codeZeroStep se.pos)
  | fuel + 1, .while c body p, s =>
    match evalCond P fuel c s with
    | (s1, .error o) => (s1, o)
    | (s1, .ok false) => (s1, .normal)
    | (s1, .ok true) =>
      match exec P fuel body s1 with
      | (s', .normal) => exec P fuel (.while c body p) s'
      | r => r
  | fuel + 1, .doLoop c top until_ body p, s =>
    if top then
      match evalCond P fuel c s with
      | (s1, .error o) => (s1, o)
      | (s1, .ok b) =>
        if b != until_ then
          match exec P fuel body s1 with
          | (s', .normal) => exec P fuel (.doLoop c top until_ body p) s'
          | r => r
        else (s1, .normal)
    else
      match exec P fuel body s with
      | (s', .normal) =>
        match evalCond P fuel c s' with
        | (s1, .error o) => (s1, o)
        | (s1, .ok b) => if b != until_ then exec P fuel (.doLoop c top until_ body p) s1 else (s1, .normal)
      | r => r
  | _ + 1, .end_ _, s => (s, .halted)
  | fuel + 1, .callSub f args _, s =>
    match call P fuel f args s with
    | (s', .ok _) => (s', .normal)
    | (s', .error o) => (s', o)
  | _ + 1, .exitProc _, s => (s, .exited)
def execCases (P : Program) : Nat → Pos → Val → Cases → St → St × Outcome
  | 0, _, _, _, s => (s, .outOfFuel)
  | _ + 1, _, _, .nil, s => (s, .normal)
  | fuel + 1, _, _, .else_ body, s => exec P fuel body s
  | fuel + 1, p, subject, .case conds body rest, s =>
    match anyMatches P fuel p subject conds s with
    | (s1, .error o) => (s1, o)
    | (s1, .ok true) => exec P fuel body s1
    | (s1, .ok false) => execCases P fuel p subject rest s1
def forIter (P : Program) : Nat → Var → Ty → Val → Val → Bool → Stmt → Pos → St → St × Outcome
  | 0, _, _, _, _, _, _, _, s => (s, .outOfFuel)
  | fuel + 1, x, t, h, sv, up, body, p, s =>
    let cur := s.get x t
    match relTest p (if up then .lessOrEqual else .greaterOrEqual) cur h with
    | .error o => (s, o)
    | .ok false => (s, .normal)
    | .ok true =>
      match exec P fuel body s with
      | (s', .normal) =>
        let cur' := s'.get x t
        match (plus cur' sv).bind (fun v => cast v t) with
        | .ok v => forIter P fuel x t h sv up body p (s'.set x v)
        | .err e => (s', .error (codeOf e) p)
        | .inexact => (s', .inexact)
      | r => r
end

/-- the state a run starts in: every variable of every scope is zero / empty -/
def St.init (P : Program) : St :=
  { env := P.slots.map zeroOf, self := none, glob := P.gslots.map zeroOf,
    statics := fun f => match P.procs[f]? with | some d => d.slots.map zeroOf | none => [],
    out := Print.WritePrinter.new, data := P.data, dataIdx := 0 }

/-- run a whole program -/
def run (fuel : Nat) (P : Program) : St × Outcome :=
  exec P fuel P.body (St.init P)

end RbModel.Proc.Ref
