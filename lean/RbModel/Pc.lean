/-!
# `RbModel.Pc` — denotational model of the parser-combinator library `rusty_pc`

A parser over a fixed input is a function from the start position to a result
(`P := Nat → Res`).  A result records what the caller of `Parser::parse` can observe:
the `Result` *and* `InputTrait::get_position()` afterwards.

* `ok v pos`     — `Ok(v)`, input left at `pos`
* `soft e pos`   — `Err(e)` with `e.is_soft()`, input left at `pos`
* `fatal e pos`  — `Err(e)` with `e.is_fatal()`, input left at `pos`
* `hang`         — the real code does not return (an unbounded `loop` in `many`/`delimited_by`
                   whose body stopped consuming input)

Errors are modelled by a numeric code plus the soft/fatal bit (`ParserErrorTrait::to_fatal`
keeps the code and sets the bit; `Default` is code 0, soft).

Every semantic combinator below is a transcription of the `parse` method named in its doc
comment.  Parser *expressions* (`PExpr`) are a syntax tree, interpreted by `run`; the harness
serialises the same tree, builds the real combinator from it and compares.

Contexts (`set_context`, `ctx_parser`, data flow of `then_with_in_context`/`many_ctx`/`iif_ctx`) are
not modelled: the expressions covered here never read a context.
-/
namespace RbModel.Pc

/-- Dynamically typed parse values (the harness uses one Rust enum for every `Output`). -/
inductive Val where
  | unit
  | sym (n : Nat)
  | pair (a b : Val)
  | nil
  | cons (h t : Val)
  | none
  | some (v : Val)
  | str (cs : List Nat)                 -- a `String` (its chars as symbol numbers)
  | tok (kind : Nat) (text : List Nat)  -- a `token.rs Token`
  | num (n : Nat)                       -- a `u8` that is not an input symbol (`TokenKind`)
  deriving DecidableEq, Repr, Inhabited

/-- A `Vec` of values. -/
def Val.ofList : List Val → Val
  | [] => .nil
  | v :: vs => .cons v (Val.ofList vs)

/-- the elements of a `Vec` value; anything else is read as a one-element vector (harness adapter `as_list`) -/
def Val.asList : Val → List Val
  | .nil => []
  | .cons h t => h :: Val.asList t
  | v => [v]

/-- `Vec::push` on a `Vec` value -/
def Val.snoc : Val → Val → Val
  | .nil, v => .cons v .nil
  | .cons h t, v => .cons h (Val.snoc t v)
  | r, _ => r

/-! ### `token.rs`

`Token { kind, text }` with a non-empty text (`Token::new` asserts it).  `Option.none` in the `?` functions is the
panic of the real function. -/

structure Token where
  kind : Nat
  text : List Nat
  deriving DecidableEq, Repr

/-- `Token::new`: `assert!(!text.is_empty())` -/
def Token.new? (kind : Nat) (text : List Nat) : Option Token :=
  if text.isEmpty then Option.none else Option.some ⟨kind, text⟩

/-- `Token::try_as_single_char` -/
def Token.trySingleChar (t : Token) : Option Nat :=
  match t.text with
  | [c] => Option.some c
  | _ => Option.none

/-- `Token::demand_single_char` = `try_as_single_char().expect(..)`: `none` is the panic -/
def Token.demandSingleChar? (t : Token) : Option Nat := t.trySingleChar

/-- `Token::to_text`, `Token::as_str`, `Display for Token`: all three are the text -/
def Token.toText (t : Token) : List Nat := t.text

/-! ### The harness's projections of its one value type onto the argument types of the typed combiners

(`harness/src/bin/c20.rs as_char / as_str / as_text / as_opt_str / as_opt_char / as_tok`; total, so that every
expression tree is well typed on the Rust side; `25` is the letter `z`). -/

def Val.asChar : Val → Nat
  | .sym k => k
  | _ => 25

def Val.asStr : Val → List Nat
  | .str s => s
  | .sym k => [k]
  | .tok _ t => t
  | _ => []

/-- a non-empty text (for `Token::new`) -/
def Val.asText (v : Val) : List Nat := if v.asStr.isEmpty then [25] else v.asStr

def Val.asOptStr : Val → Option (List Nat)
  | .none => Option.none
  | .some v => Option.some v.asStr
  | v => Option.some v.asStr

def Val.asOptChar : Val → Option Nat
  | .none => Option.none
  | .some v => Option.some v.asChar
  | v => Option.some v.asChar

def Val.asTok : Val → Token
  | .tok k t => ⟨k, t⟩
  | v => ⟨0, v.asText⟩

inductive Res where
  | ok (v : Val) (pos : Nat)
  | soft (e : Nat) (pos : Nat)
  | fatal (e : Nat) (pos : Nat)
  | hang
  deriving DecidableEq, Repr, Inhabited

/-- A parser over a fixed input: start position ↦ observable result. -/
abbrev P := Nat → Res

/-! ## Function parameters of the combinators (small closed families, shared with the harness) -/

/-- `and.rs` combiners (`Combiner::combine`): `TupleCombiner`, `KeepLeftCombiner`, `KeepRightCombiner`,
`IgnoringBothCombiner` (`ignore`), the blanket impl for `Fn(L, R) -> O` (`swap`: the closure `|a, b| Pair(b, a)`),
`VecCombiner` on two items (`vec2`) and on two vectors (`vecCat`), and the five impls of `StringCombiner`:
`(String, String)` (`strCat`), `(Option<String>, String)` (`optStrCat`), `(char, char)` (`chars`),
`(char, Option<char>)` (`charOpt`), `(char, Vec<char>)` (`charVec`). -/
inductive Cmb where
  | tuple | left | right
  | ignore | swap | vec2 | vecCat | strCat | optStrCat | chars | charOpt | charVec
  deriving DecidableEq, Repr

def Cmb.app : Cmb → Val → Val → Val
  | .tuple, a, b => .pair a b
  | .left, a, _ => a
  | .right, _, b => b
  | .ignore, _, _ => .unit
  | .swap, a, b => .pair b a
  | .vec2, a, b => Val.ofList [a, b]
  | .vecCat, a, b => Val.ofList (a.asList ++ b.asList)
  | .strCat, a, b => .str (a.asStr ++ b.asStr)
  | .optStrCat, a, b =>
    match a.asOptStr with
    | Option.some l => .str (l ++ b.asStr)
    | Option.none => .str b.asStr
  | .chars, a, b => .str [a.asChar, b.asChar]
  | .charOpt, a, b =>
    match b.asOptChar with
    | Option.some r => .str [a.asChar, r]
    | Option.none => .str [a.asChar]
  | .charVec, a, b => .str (a.asChar :: b.asList.map Val.asChar)

/-- `many.rs` many-combiners (`ManyCombiner::seed` / `accumulate`, and `O::default()` for `many_allow_none`):
`VecManyCombiner`, `StringManyCombiner` over `char` (`str`) and over `Token` (`tokStr`), `IgnoringManyCombiner`. -/
inductive MCmb where
  | vec | str | tokStr | ignore
  deriving DecidableEq, Repr

def MCmb.seed : MCmb → Val → Val
  | .vec, v => .cons v .nil
  | .str, v => .str [v.asChar]
  | .tokStr, v => .str v.asTok.toText
  | .ignore, _ => .unit

def MCmb.acc : MCmb → Val → Val → Val
  | .vec, r, v => r.snoc v
  | .str, r, v => .str (r.asStr ++ [v.asChar])
  | .tokStr, r, v => .str (r.asStr ++ v.asTok.toText)
  | .ignore, _, _ => .unit

def MCmb.dflt : MCmb → Val
  | .vec => .nil
  | .str | .tokStr => .str []
  | .ignore => .unit

/-- predicates for `filter` -/
inductive Pred where
  | eqSym (k : Nat) | neSym (k : Nat) | inSyms (ks : List Nat)
  deriving DecidableEq, Repr

def Pred.app : Pred → Val → Bool
  | .eqSym k, v => v == .sym k
  | .neSym k, v => v != .sym k
  | .inSyms ks, .sym c => ks.contains c
  | .inSyms _, _ => false

/-- functions for `filter_map`: accept exactly `sym k`, mapping it to `pair v v` -/
inductive FM where
  | dupIf (k : Nat)
  deriving DecidableEq, Repr

def FM.app : FM → Val → Option Val
  | .dupIf k, v => if v == .sym k then Option.some (.pair v v) else Option.none

/-- functions for `map` (`toUnit` is also `map_to_unit`); `charStr` is `String::from(char)` (the mapper of
`text/strings.rs one_char_to_str`); `mkTok k` is `|v| Token::new(k, text)`, and the remaining four read a `Token`:
`Token::kind`, `Token::as_str`, `Token::try_as_single_char`, `Display` (`to_string`). -/
inductive MapFn where
  | toUnit | wrap | dup
  | charStr | mkTok (kind : Nat) | tokKind | tokText | tokChar | tokShow
  deriving DecidableEq, Repr

def MapFn.app : MapFn → Val → Val
  | .toUnit, _ => .unit
  | .wrap, v => .some v
  | .dup, v => .pair v v
  | .charStr, v => .str [v.asChar]
  | .mkTok k, v => .tok k v.asText
  | .tokKind, v => .num v.asTok.kind
  | .tokText, v => .str v.asTok.toText
  | .tokChar, v =>
    match v.asTok.trySingleChar with
    | Option.some c => .some (.sym c)
    | Option.none => .none
  | .tokShow, v => .str v.asTok.toText

/-- mappers for `and_then`: keep the value if it is `sym keep`, else fail with `(code, fatal)` -/
structure AT where
  keep : Nat
  code : Nat
  fatal : Bool
  deriving DecidableEq, Repr

/-- mappers for `and_then_err` (applied to the code of a soft error) -/
inductive ErrFn where
  | recover                        -- `|_| Ok(Unit)`
  | recoverIf (k : Nat)            -- `|e| if e.code == k { Ok(Unit) } else { Err(e) }`
  | replace (c : Nat) (fatal : Bool) -- `|_| Err(E{c, fatal})`
  deriving DecidableEq, Repr

/-! ## Leaves -/

/-- `top_level.rs read_p` (`ReadParser::parse`): soft default error at EOF, else read one element. -/
def anyP (inp : List Nat) : P := fun pos =>
  match inp[pos]? with
  | Option.some c => .ok (.sym c) (pos + 1)
  | Option.none => .soft 0 pos

/-- `top_level.rs peek_p` (`PeekParser::parse`). -/
def peekAnyP (inp : List Nat) : P := fun pos =>
  match inp[pos]? with
  | Option.some c => .ok (.sym c) pos
  | Option.none => .soft 0 pos

/-- `supplier.rs err_supplier` with a soft error. -/
def failSoftP (c : Nat) : P := fun pos => .soft c pos

/-- `supplier.rs err_supplier` with a fatal error. -/
def failFatalP (c : Nat) : P := fun pos => .fatal c pos

/-- `supplier.rs supplier(|| Unit)`: succeeds without consuming. -/
def pureP : P := fun pos => .ok .unit pos

/-- Harness-only leaf, ill-behaved on purpose: consumes one element (if any) and then returns the
soft error 7 *without* restoring the position. -/
def eatSoftP (inp : List Nat) : P := fun pos =>
  match inp[pos]? with
  | Option.some _ => .soft 7 (pos + 1)
  | Option.none => .soft 7 pos

/-! ## Combinators -/

/-- `and.rs AndParser::parse`: the position is restored only when the *right* side fails softly. -/
def andP (c : Cmb) (l r : P) : P := fun pos =>
  match l pos with
  | .ok a p1 =>
    match r p1 with
    | .ok b p2 => .ok (c.app a b) p2
    | .soft e _ => .soft e pos
    | .fatal e p2 => .fatal e p2
    | .hang => .hang
  | .soft e q => .soft e q
  | .fatal e q => .fatal e q
  | .hang => .hang

/-- `or.rs OrParser::parse` with alternatives `p :: rest` (the real code panics on an empty vector):
every alternative but the last is tried from the original position (explicit restore); the last
alternative's result is returned as it is. -/
def orBoxP : P → List P → P
  | p, [] => p
  | p, q :: rest => fun pos =>
    match p pos with
    | .soft _ _ => orBoxP q rest pos
    | .ok v q' => .ok v q'
    | .fatal e q' => .fatal e q'
    | .hang => .hang

/-- `or.rs OrParserNoBox::parse`: no restore — the right side starts where the left side's soft
failure left the input. -/
def orNoBoxP (l r : P) : P := fun pos =>
  match l pos with
  | .soft _ q => r q
  | .ok v q => .ok v q
  | .fatal e q => .fatal e q
  | .hang => .hang

/-- The `loop` of `many.rs ManyParser::parse` (and `many_ctx.rs`): `acc` are the values so far.
The real loop has no bound; `fuel` exhausted means the body kept succeeding `fuel` times, which
(positions being bounded by the input length and parsers being stateless) only happens when a
position repeats, i.e. when the real loop never ends. -/
def manyLoop (p : P) : Nat → Nat → List Val → Res
  | 0, _, _ => .hang
  | fuel + 1, pos, acc =>
    match p pos with
    | .ok v q => manyLoop p fuel q (acc ++ [v])
    | .soft _ q => .ok (Val.ofList acc) q
    | .fatal e q => .fatal e q
    | .hang => .hang

/-- `many.rs ManyParser::parse` with `VecManyCombiner` (`allowNone`: `many_allow_none`). -/
def manyP (len : Nat) (allowNone : Bool) (p : P) : P := fun pos =>
  match p pos with
  | .ok v q => manyLoop p (len + 3) q [v]
  | .soft e q => if allowNone then .ok .nil q else .soft e q
  | .fatal e q => .fatal e q
  | .hang => .hang

/-- The `loop` of `many.rs ManyParser::parse` with an arbitrary `ManyCombiner`: `res` is `result`, updated by
`accumulate`.  Fuel as in `manyLoop`. -/
def manyLoopC (mc : MCmb) (p : P) : Nat → Nat → Val → Res
  | 0, _, _ => .hang
  | fuel + 1, pos, res =>
    match p pos with
    | .ok v q => manyLoopC mc p fuel q (mc.acc res v)
    | .soft _ q => .ok res q
    | .fatal e q => .fatal e q
    | .hang => .hang

/-- `many.rs ManyParser::parse` (`many` / `many_allow_none` with the combiner `mc`): the result is seeded from the
first element; no element and `allow_none` gives `O::default()`. -/
def manyCP (len : Nat) (mc : MCmb) (allowNone : Bool) (p : P) : P := fun pos =>
  match p pos with
  | .ok v q => manyLoopC mc p (len + 3) q (mc.seed v)
  | .soft e q => if allowNone then .ok mc.dflt q else .soft e q
  | .fatal e q => .fatal e q
  | .hang => .hang

/-- `filter.rs FilterParser::parse`: rejection rewinds and yields the default (soft, code 0) error. -/
def filterP (pr : Pred) (p : P) : P := fun pos =>
  match p pos with
  | .ok v q => if pr.app v then .ok v q else .soft 0 pos
  | .soft e q => .soft e q
  | .fatal e q => .fatal e q
  | .hang => .hang

/-- `filter_map.rs FilterMapParser::parse`. -/
def filterMapP (f : FM) (p : P) : P := fun pos =>
  match p pos with
  | .ok v q =>
    match f.app v with
    | Option.some w => .ok w q
    | Option.none => .soft 0 pos
  | .soft e q => .soft e q
  | .fatal e q => .fatal e q
  | .hang => .hang

/-- `peek.rs PeekParser::parse`: success rewinds; errors are returned as they are. -/
def peekP (p : P) : P := fun pos =>
  match p pos with
  | .ok v _ => .ok v pos
  | .soft e q => .soft e q
  | .fatal e q => .fatal e q
  | .hang => .hang

/-- `to_option.rs` through `map_decorator.rs`: soft ↦ `Ok(None)`. -/
def toOptionP (p : P) : P := fun pos =>
  match p pos with
  | .ok v q => .ok (.some v) q
  | .soft _ q => .ok .none q
  | .fatal e q => .fatal e q
  | .hang => .hang

/-- `or_default.rs`: soft ↦ `Ok(Default::default())` (the harness value type defaults to the empty list). -/
def orDefaultP (p : P) : P := fun pos =>
  match p pos with
  | .ok v q => .ok v q
  | .soft _ q => .ok .nil q
  | .fatal e q => .fatal e q
  | .hang => .hang

/-- second half of `surround.rs SurroundParser::parse` (main content and right boundary). -/
def surroundMain (mandatory : Bool) (m r : P) (orig q : Nat) : Res :=
  match m q with
  | .ok v q1 =>
    match r q1 with
    | .ok _ q2 => .ok v q2
    | .soft e q2 => if mandatory then .fatal e q2 else .ok v q2
    | .fatal e q2 => .fatal e q2
    | .hang => .hang
  | .soft e q1 => if mandatory then .fatal e q1 else .soft e orig
  | .fatal e q1 => .fatal e q1
  | .hang => .hang

/-- `surround.rs SurroundParser::parse`, both `SurroundMode`s. -/
def surroundP (mandatory : Bool) (l m r : P) : P := fun pos =>
  match l pos with
  | .ok _ q => surroundMain mandatory m r pos q
  | .soft e q => if mandatory then .soft e q else surroundMain mandatory m r pos q
  | .fatal e q => .fatal e q
  | .hang => .hang

/-- `LastParsed` of `delimited.rs`. -/
inductive Last where
  | nothing | value | delim
  deriving DecidableEq, Repr

/-- the `match last_parsed` after the loop of `DelimitedParser::parse` -/
def delimFinish (te : Nat) (acc : List Val) (last : Last) (q : Nat) : Res :=
  match last with
  | .nothing => .soft 0 q
  | .value => .ok (Val.ofList acc) q
  | .delim => .fatal te q

/-- The `loop` of `delimited.rs DelimitedParser::parse`.  `allowMissing` selects
`OptionalElementCollector` (elements are wrapped in `Some`, a delimiter without element pushes `None`)
instead of `NormalElementCollector`; `te` is the code of `trailing_error` (fatal). `fuel` as in `manyLoop`. -/
def delimLoop (allowMissing : Bool) (te : Nat) (p d : P) : Nat → Nat → List Val → Last → Res
  | 0, _, _, _ => .hang
  | fuel + 1, pos, acc, last =>
    match p pos with
    | .ok v q =>
      let acc' := acc ++ [if allowMissing then Val.some v else v]
      match d q with
      | .ok _ q2 => delimLoop allowMissing te p d fuel q2 acc' .delim
      | .soft _ q2 => delimFinish te acc' .value q2
      | .fatal e q2 => .fatal e q2
      | .hang => .hang
    | .soft _ q =>
      match d q with
      | .ok _ q2 =>
        if allowMissing then delimLoop allowMissing te p d fuel q2 (acc ++ [Val.none]) .delim
        else .fatal te q2
      | .soft _ q2 => delimFinish te acc last q2
      | .fatal e q2 => .fatal e q2
      | .hang => .hang
    | .fatal e q => .fatal e q
    | .hang => .hang

/-- `delimited.rs DelimitedParser::parse` (`delimited_by` / `delimited_by_allow_missing`). -/
def delimitedP (len : Nat) (allowMissing : Bool) (te : Nat) (p d : P) : P := fun pos =>
  delimLoop allowMissing te p d (len + 3) pos [] .nothing

/-- the elements after the first of `seq.rs seq_pc!`: every error becomes fatal. -/
def seqRest : List P → Nat → List Val → Res
  | [], pos, acc => .ok (Val.ofList acc) pos
  | p :: ps, pos, acc =>
    match p pos with
    | .ok v q => seqRest ps q (acc ++ [v])
    | .soft e q => .fatal e q
    | .fatal e q => .fatal e q
    | .hang => .hang

/-- `seq.rs seq2 … seq6` (`Seq2::parse` …) with a mapper collecting the values into a `Vec`. -/
def seqP (first : P) (rest : List P) : P := fun pos =>
  match first pos with
  | .ok v q => seqRest rest q [v]
  | .soft e q => .soft e q
  | .fatal e q => .fatal e q
  | .hang => .hang

/-- `then_with.rs ThenWithContextParser::parse` (the right side not reading its context). -/
def thenWithP (c : Cmb) (l r : P) : P := fun pos =>
  match l pos with
  | .ok a p1 =>
    match r p1 with
    | .ok b p2 => .ok (c.app a b) p2
    | .soft e p2 => .fatal e p2
    | .fatal e p2 => .fatal e p2
    | .hang => .hang
  | .soft e q => .soft e q
  | .fatal e q => .fatal e q
  | .hang => .hang

/-- `and_then.rs`: the mapper's error is returned where the input is (no rewind, as documented). -/
def andThenP (m : AT) (p : P) : P := fun pos =>
  match p pos with
  | .ok v q => if v == .sym m.keep then .ok v q else if m.fatal then .fatal m.code q else .soft m.code q
  | .soft e q => .soft e q
  | .fatal e q => .fatal e q
  | .hang => .hang

/-- `and_then_err.rs`: the mapper sees soft errors only. -/
def andThenErrP (m : ErrFn) (p : P) : P := fun pos =>
  match p pos with
  | .ok v q => .ok v q
  | .soft e q =>
    match m with
    | .recover => .ok .unit q
    | .recoverIf k => if e == k then .ok .unit q else .soft e q
    | .replace c fatal => if fatal then .fatal c q else .soft c q
  | .fatal e q => .fatal e q
  | .hang => .hang

/-- `map.rs MapParser` / `MapToUnitParser`. -/
def mapP (f : MapFn) (p : P) : P := fun pos =>
  match p pos with
  | .ok v q => .ok (f.app v) q
  | .soft e q => .soft e q
  | .fatal e q => .fatal e q
  | .hang => .hang

/-- `to_fatal.rs`. -/
def toFatalP (p : P) : P := fun pos =>
  match p pos with
  | .ok v q => .ok v q
  | .soft e q => .fatal e q
  | .fatal e q => .fatal e q
  | .hang => .hang

/-- `map_soft_err.rs` (`with_soft_err`, `with_expected_message`, `or_fail`, `or_expected`): a soft
error is replaced by the given error `(c, fatal)`. -/
def withSoftErrP (c : Nat) (fatal : Bool) (p : P) : P := fun pos =>
  match p pos with
  | .ok v q => .ok v q
  | .soft _ q => if fatal then .fatal c q else .soft c q
  | .fatal e q => .fatal e q
  | .hang => .hang

/-- `map_fatal_err.rs MapFatalErrParser::parse` after the F14 repair: only fatal errors are replaced
(by the fatal error `c`); soft errors pass through, as the doc comment of `map_fatal_err` says. -/
def mapFatalErrP (c : Nat) (p : P) : P := fun pos =>
  match p pos with
  | .ok v q => .ok v q
  | .soft e q => .soft e q
  | .fatal _ q => .fatal c q
  | .hang => .hang

/-- The pinned tree's `MapFatalErrParser::parse` (`Err(_) => Err(self.err.clone())`): soft errors were
replaced too.  Kept to state the defect (F14) as a theorem. -/
def mapFatalErrP_pinned (c : Nat) (p : P) : P := fun pos =>
  match p pos with
  | .ok v q => .ok v q
  | .soft _ q => .fatal c q
  | .fatal _ q => .fatal c q
  | .hang => .hang

/-- `flatten.rs FlattenParser::parse` where the outer parser's value is (always) the parser `q`:
no rewind and no conversion of the inner parser's error. -/
def flattenP (p q : P) : P := fun pos =>
  match p pos with
  | .ok _ q1 => q q1
  | .soft e q1 => .soft e q1
  | .fatal e q1 => .fatal e q1
  | .hang => .hang

/-! ## Parser expressions -/

inductive PExpr where
  -- leaves
  | any | peekAny | one (k : Nat) | oneOf (ks : List Nat) | failSoft (c : Nat) | failFatal (c : Nat)
  | eatSoft | pure | manyStr (k : Nat)
  -- combinators
  | and (c : Cmb) (l r : PExpr)
  | or2 (a b : PExpr) | or3 (a b c : PExpr)
  | orNoBox (l r : PExpr)
  | many (allowNone : Bool) (e : PExpr)
  | manyC (mc : MCmb) (allowNone : Bool) (e : PExpr)
  | manyCtx (allowNone : Bool) (e : PExpr)
  | filter (pr : Pred) (e : PExpr)
  | filterMap (f : FM) (e : PExpr)
  | peek (e : PExpr) | toOption (e : PExpr) | orDefault (e : PExpr)
  | surround (mandatory : Bool) (l m r : PExpr)
  | delimited (allowMissing : Bool) (te : Nat) (e d : PExpr)
  | seq2 (a b : PExpr) | seq3 (a b c : PExpr) | seq4 (a b c d : PExpr)
  | seq5 (a b c d e : PExpr) | seq6 (a b c d e f : PExpr)
  | thenWith (c : Cmb) (l r : PExpr)
  | andThen (m : AT) (e : PExpr)
  | andThenErr (m : ErrFn) (e : PExpr)
  | map (f : MapFn) (e : PExpr)
  | toFatal (e : PExpr)
  | withSoftErr (c : Nat) (fatal : Bool) (e : PExpr)
  | mapFatalErr (c : Nat) (e : PExpr)
  | flatten (p q : PExpr)
  | lazy (e : PExpr)
  | iif (b : Bool) (l r : PExpr)
  deriving Repr

/-- `one_p(k)` = `read_p().filter(|x| *x == k)` (`top_level.rs`). -/
def oneP (inp : List Nat) (k : Nat) : P := filterP (.eqSym k) (anyP inp)

/-- `one_of_p(ks)` = `read_p().filter(|x| ks.contains(x))`. -/
def oneOfP (inp : List Nat) (ks : List Nat) : P := filterP (.inSyms ks) (anyP inp)

/-- The interpreter.  `lazy`, `boxed`, `no_context`, `map_ctx` are the identity on results;
`iif` is `iif_ctx.rs` with the flag already set; `manyStr k` is `text/strings.rs many_str(|c| c == k)`
(= `read_p().filter(..).many(..)`), its `String` read as the list of its symbols; `manyC mc` is
`many` / `many_allow_none` with the many-combiner `mc` (`many` itself is the `VecManyCombiner` instance, see
`RbThm.C20Val.manyCP_vec`).  Two library functions are compositions and have no constructor of their own:
`text/strings.rs one_char_to_str(k)` = `oneStrE k` and `many_str_with_combiner(|c| c == k, mc)` = `manyStrWithE mc k`. -/
def run : PExpr → List Nat → P
  | .any, inp => anyP inp
  | .peekAny, inp => peekAnyP inp
  | .one k, inp => oneP inp k
  | .oneOf ks, inp => oneOfP inp ks
  | .failSoft c, _ => failSoftP c
  | .failFatal c, _ => failFatalP c
  | .eatSoft, inp => eatSoftP inp
  | .pure, _ => pureP
  | .manyStr k, inp => manyP inp.length false (oneP inp k)
  | .and c l r, inp => andP c (run l inp) (run r inp)
  | .or2 a b, inp => orBoxP (run a inp) [run b inp]
  | .or3 a b c, inp => orBoxP (run a inp) [run b inp, run c inp]
  | .orNoBox l r, inp => orNoBoxP (run l inp) (run r inp)
  | .many an e, inp => manyP inp.length an (run e inp)
  | .manyC mc an e, inp => manyCP inp.length mc an (run e inp)
  | .manyCtx an e, inp => manyP inp.length an (run e inp)
  | .filter pr e, inp => filterP pr (run e inp)
  | .filterMap f e, inp => filterMapP f (run e inp)
  | .peek e, inp => peekP (run e inp)
  | .toOption e, inp => toOptionP (run e inp)
  | .orDefault e, inp => orDefaultP (run e inp)
  | .surround md l m r, inp => surroundP md (run l inp) (run m inp) (run r inp)
  | .delimited am te e d, inp => delimitedP inp.length am te (run e inp) (run d inp)
  | .seq2 a b, inp => seqP (run a inp) [run b inp]
  | .seq3 a b c, inp => seqP (run a inp) [run b inp, run c inp]
  | .seq4 a b c d, inp => seqP (run a inp) [run b inp, run c inp, run d inp]
  | .seq5 a b c d e, inp => seqP (run a inp) [run b inp, run c inp, run d inp, run e inp]
  | .seq6 a b c d e f, inp => seqP (run a inp) [run b inp, run c inp, run d inp, run e inp, run f inp]
  | .thenWith c l r, inp => thenWithP c (run l inp) (run r inp)
  | .andThen m e, inp => andThenP m (run e inp)
  | .andThenErr m e, inp => andThenErrP m (run e inp)
  | .map f e, inp => mapP f (run e inp)
  | .toFatal e, inp => toFatalP (run e inp)
  | .withSoftErr c ft e, inp => withSoftErrP c ft (run e inp)
  | .mapFatalErr c e, inp => mapFatalErrP c (run e inp)
  | .flatten p q, inp => flattenP (run p inp) (run q inp)
  | .lazy e, inp => run e inp
  | .iif b l r, inp => if b then run l inp else run r inp

/-- `text/strings.rs one_char_to_str(k)` = `one_p(k).map(String::from)` -/
def oneStrE (k : Nat) : PExpr := .map .charStr (.one k)

/-- `text/strings.rs many_str_with_combiner(|c| c == k, mc)` = `read_p().filter(..).many(mc)`
(`many_str` is the instance `mc = StringManyCombiner`) -/
def manyStrWithE (mc : MCmb) (k : Nat) : PExpr := .manyC mc false (.one k)

end RbModel.Pc
