/-
Model of the storage that C04 is about: multi-dimensional arrays (`rusty_variant/src/array_value.rs`),
records (`rusty_variant/src/user_defined_type_value.rs`), fixed-length strings
(`rusty_basic/src/interpreter/string_utils.rs::fix_length`) and the bounds built-ins
(`rusty_basic/src/interpreter/built_ins/{lbound,ubound}.rs`).

Core imports only (this file is linked into the driver executable).

Conventions: a dimension is a pair `(lbound, ubound)`; indices and bounds are mathematical integers
(`Int`); `absIndex` is the transcription over unbounded integers, `absIndex32` the one with the `i32`
wrap-around arithmetic of a release build (`Thm/C04.lean` proves they agree when
`dimsLen dims < 2^31`).  Strings are lists of characters (a Rust `String` is a sequence of `char`s; the
repaired `fix_length` counts characters).
-/
namespace RbModel.Arr

/-! ## Arrays -/

/-- Number of elements of one dimension, as computed by `(*ubound - *lbound + 1) as usize`
(for `ubound ≥ lbound - 1`; `allocation.rs::to_dimensions` rejects `ubound < lbound`). -/
def extent (d : Int × Int) : Nat := (d.2 - d.1 + 1).toNat

/-- Port of `dimensions_to_array_length`: `len = 1; for (lb, ub) in dims { len *= (ub - lb + 1) }`. -/
def dimsLen (dims : List (Int × Int)) : Nat :=
  dims.foldl (fun len d => len * extent d) 1

/-- Port of `dimensions_to_array_length` as it is now (f23bb7c): every extent is computed in `i64` and must
convert to `usize`, the running product is `checked_mul` in `usize` (64 bit); `none` = Out of memory (7)
(`VArray::try_new`; a failed `try_reserve_exact` — not modelled, it depends on the machine — gives the same error). -/
def dimsLenChecked : List (Int × Int) → Nat → Option Nat
  | [], len => some len
  | (lb, ub) :: ds, len =>
      if ub - lb + 1 < 0 then none
      else if len * (ub - lb + 1).toNat ≥ 18446744073709551616 then none
      else dimsLenChecked ds (len * (ub - lb + 1).toNat)

/-- The loop of `VArray::abs_index`.  The Rust loop runs `i` from the last index down to the first with a
running `index` and `multiplier`; here the two lists are passed *reversed* so that the head is the
element the loop looks at.  `none` = `Err(SubscriptOutOfRangeError)`.  Lists of different length (a wrong
number of subscripts) also give `none`: `abs_index` starts with `if indices.len() != self.dimensions.len()
{ return Err(SubscriptOutOfRangeError) }` (since 725b882; a debug assertion before). -/
def absLoop : List (Int × Int) → List Int → Int → Int → Option Int
  | [], [], index, _ => some index
  | (lb, ub) :: ds, arg :: as, index, mult =>
      if arg < lb ∨ arg > ub then none
      else absLoop ds as (index + (arg - lb) * mult) (mult * (ub - lb + 1))
  | _, _, _, _ => none

/-- Port of `VArray::abs_index` over unbounded integers: `index = 0; multiplier = 1; i = n-1 .. 0`,
then `index as usize`. -/
def absIndex (dims : List (Int × Int)) (idx : List Int) : Option Nat :=
  (absLoop dims.reverse idx.reverse 0 1).map Int.toNat

/-- Two's-complement wrap-around of an `i32` operation (release builds; debug builds panic instead). -/
def wrap32 (x : Int) : Int := (x + 2147483648) % 4294967296 - 2147483648

/-- `absLoop` with every `i32` operation of the Rust loop wrapped. -/
def absLoop32 : List (Int × Int) → List Int → Int → Int → Option Int
  | [], [], index, _ => some index
  | (lb, ub) :: ds, arg :: as, index, mult =>
      if arg < lb ∨ arg > ub then none
      else absLoop32 ds as
        (wrap32 (index + wrap32 (wrap32 (arg - lb) * mult)))
        (wrap32 (mult * wrap32 (wrap32 (ub - lb) + 1)))
  | _, _, _, _ => none

/-- `abs_index` with `i32` arithmetic; `index as usize` sign-extends a negative `i32` to 64 bits. -/
def absIndex32 (dims : List (Int × Int)) (idx : List Int) : Option Nat :=
  (absLoop32 dims.reverse idx.reverse 0 1).map
    (fun i => if i < 0 then (i + 18446744073709551616).toNat else i.toNat)

/-- `VArray`: the declared dimensions and the flat element vector. -/
structure VArray (α : Type) where
  dims : List (Int × Int)
  elems : List α
  deriving Repr

/-- Port of `VArray::new`: `len` copies of the default value. -/
def VArray.new {α : Type} (dims : List (Int × Int)) (dflt : α) : VArray α :=
  ⟨dims, List.replicate (dimsLen dims) dflt⟩

/-- Port of `VArray::get_element`: `abs_index` then `elements.get(index)`; `none` = Subscript out of range. -/
def getElem {α : Type} (a : VArray α) (idx : List Int) : Option α :=
  match absIndex a.dims idx with
  | some k => a.elems[k]?
  | none => none

/-- Port of `VArray::get_element_mut` followed by the store `*v = value`
(`var_path.rs::copy_a_to_var_path` / `resolve_array_mut`). -/
def setElem {α : Type} (a : VArray α) (idx : List Int) (v : α) : Option (VArray α) :=
  match absIndex a.dims idx with
  | some k => if k < a.elems.length then some { a with elems := a.elems.set k v } else none
  | none => none

/-- Port of `VArray::len`. -/
def VArray.len {α : Type} (a : VArray α) : Nat := a.elems.length

/-- Port of `VArray::get_dimension_bounds`. -/
def dimBounds {α : Type} (a : VArray α) (i : Nat) : Option (Int × Int) := a.dims[i]?

/-- Port of `built_ins/lbound.rs::run` on an array argument: `dimension` must be positive
(`to_positive_int_or(SubscriptOutOfRange)`), then `get_dimension_bounds(dimension - 1)`;
`none` = Subscript out of range. -/
def lbound {α : Type} (a : VArray α) (dimension : Int) : Option Int :=
  if dimension > 0 then (dimBounds a (dimension.toNat - 1)).map (·.1) else none

/-- Port of `built_ins/ubound.rs::run`. -/
def ubound {α : Type} (a : VArray α) (dimension : Int) : Option Int :=
  if dimension > 0 then (dimBounds a (dimension.toNat - 1)).map (·.2) else none

/-! ## Records -/

/-- `u8::to_ascii_uppercase` on a character (bytes ≥ 128 are left alone, so folding the UTF-8 bytes and
folding the characters is the same thing). -/
def upperAscii (c : Char) : Char :=
  if 97 ≤ c.toNat ∧ c.toNat ≤ 122 then Char.ofNat (c.toNat - 32) else c

/-- The key under which `CaseInsensitiveString` compares and hashes (`case_insensitive_utils.rs`). -/
def foldName (s : List Char) : List Char := s.map upperAscii

/-- Association-list insert with the semantics of `HashMap::insert` (an existing key keeps its place,
its value is replaced). -/
def insertField {κ α : Type} [DecidableEq κ] : List (κ × α) → κ → α → List (κ × α)
  | [], k, v => [(k, v)]
  | (k', v') :: rest, k, v => if k' = k then (k', v) :: rest else (k', v') :: insertField rest k v

/-- Association-list lookup. -/
def lookupField {κ α : Type} [DecidableEq κ] : List (κ × α) → κ → Option α
  | [], _ => none
  | (k', v') :: rest, k => if k' = k then some v' else lookupField rest k

/-- Replace the value of an existing key (`*get_mut(k).unwrap() = v`); `none` if the key is absent
(`resolve_property_mut` panics: "Property not defined, linter should have caught this"). -/
def updateField {κ α : Type} [DecidableEq κ] : List (κ × α) → κ → α → Option (List (κ × α))
  | [], _, _ => none
  | (k', v') :: rest, k, v =>
      if k' = k then some ((k', v) :: rest)
      else (updateField rest k v).map ((k', v') :: ·)

/-- `UserDefinedTypeValue`: fields in declaration order, keyed by the case-folded name. -/
structure Rec (α : Type) where
  fields : List (List Char × α)
  deriving Repr

/-- Port of `UserDefinedTypeValue::new`. -/
def Rec.new {α : Type} (arr : List (List Char × α)) : Rec α :=
  ⟨arr.foldl (fun acc p => insertField acc (foldName p.1) p.2) []⟩

/-- Port of `UserDefinedTypeValue::get`. -/
def getField {α : Type} (r : Rec α) (name : List Char) : Option α :=
  lookupField r.fields (foldName name)

/-- Port of `UserDefinedTypeValue::get_mut` followed by the store. -/
def setField {α : Type} (r : Rec α) (name : List Char) (v : α) : Option (Rec α) :=
  (updateField r.fields (foldName name) v).map Rec.mk

/-- Port of `UserDefinedTypeValue::names` (as folded keys). -/
def Rec.names {α : Type} (r : Rec α) : List (List Char) := r.fields.map (·.1)

/-! ## Fixed-length strings -/

/-- `if let Some(index) = s.find('\0') { while s.len() > index { s.pop(); } }`:
keep what precedes the first NUL. -/
def cutNul : List Char → List Char
  | [] => []
  | c :: cs => if c = Char.ofNat 0 then [] else c :: cutNul cs

/-- `while char_count > len { s.pop(); char_count -= 1; }` -/
def popLoop (s : List Char) (n : Nat) : List Char :=
  if s.length > n then popLoop s.dropLast n else s
termination_by s.length
decreasing_by simp [List.length_dropLast]; omega

/-- `while char_count < len { s.push(' '); char_count += 1; }` -/
def pushLoop (s : List Char) (n : Nat) : List Char :=
  if s.length < n then pushLoop (s ++ [' ']) n else s
termination_by n - s.length
decreasing_by simp; omega

/-- Port of `string_utils.rs::fix_length` (as repaired: lengths are counted in characters). -/
def fixLength (s : List Char) (n : Nat) : List Char :=
  pushLoop (popLoop (cutNul s) n) n

/-- Number of bytes of the UTF-8 encoding of a character (`char::len_utf8`). -/
def utf8Len (c : Char) : Nat :=
  if c.toNat < 128 then 1 else if c.toNat < 2048 then 2 else if c.toNat < 65536 then 3 else 4

/-- `String::len`: length in UTF-8 bytes. -/
def byteLen (s : List Char) : Nat := (s.map utf8Len).foldl (· + ·) 0

/-- `while s.len() > len { s.pop(); }` of the *pinned* tree (byte count); `fuel` = number of characters
(every iteration pops one). -/
def popLoopBytes (s : List Char) (n : Nat) : Nat → List Char
  | 0 => s
  | fuel + 1 => if byteLen s > n then popLoopBytes s.dropLast n fuel else s

/-- `while s.len() < len { s.push(' '); }` of the pinned tree (byte count; a space is one byte, so at most
`len` iterations). -/
def pushLoopBytes (s : List Char) (n : Nat) : Nat → List Char
  | 0 => s
  | fuel + 1 => if byteLen s < n then pushLoopBytes (s ++ [' ']) n fuel else s

/-- `fix_length` as it was on the pinned tree (before the `fix:` commit): lengths in UTF-8 bytes (F13).
Kept only to state the defect; not served by the driver's `arr.fixLength`. -/
def fixLengthBytes (s : List Char) (n : Nat) : List Char :=
  pushLoopBytes (popLoopBytes (cutNul s) n (cutNul s).length) n n

end RbModel.Arr
