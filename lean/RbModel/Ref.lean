import RbModel.Ast
import RbModel.Print
import Gen.NumTables
/-!
Big-step reference semantics of the core language (property C01): the *specification* a run of a
core program is compared with.  Written from the language rules over the typed syntax tree —
environment of typed variables, expression evaluation with static result types, assignment =
convert-then-store, structured loops by recursion on fuel, the first failing statement ends the
run with `(code, row, col)` — and independent of the instruction generator and the VM.

Arithmetic, conversions and comparisons are those of `RbModel.Num` (the numeric model tied to
`rusty_variant` by C06); PRINT layout is that of `RbModel.Print` (tied by C16).
-/
namespace RbModel.Ref
open RbModel RbModel.Num RbModel.Ast
open RbModel.Ast (Expr)

/-- BASIC error codes (`RuntimeError::get_code`) -/
def codeOf : Err → Nat
  | .overflow => 6
  | .divisionByZero => 11
  | .typeMismatch => 13

def codeOutOfData : Nat := 4
def codeZeroStep : Nat := 258

/-- result of evaluating an expression -/
inductive ERes where
  | ok (v : Val)
  | err (code : Nat) (p : Pos)
  | inexact
  deriving Inhabited

def ERes.bind : ERes → (Val → ERes) → ERes
  | .ok v, f => f v
  | .err c p, _ => .err c p
  | .inexact, _ => .inexact

def lift (p : Pos) : Res Val → ERes
  | .ok v => .ok v
  | .err e => .err (codeOf e) p
  | .inexact => .inexact

def zeroOf : Ty → Val
  | .int => .int 0 | .long => .long 0 | .sgl => .sgl 0 | .dbl => .dbl 0 | .str => .str []

/-- the value of a binary operator node of static type `t` applied to operand values -/
def binStep (op : Op) (t : Ty) (a b : Val) : Res Val :=
  match op with
  | .divide => (divide a b).bind fun q => cast q t
  | _ => vmBin Gen.NumTables.binType op a b

def eval (env : List Val) : Ast.Expr → ERes
  | .lit v _ => .ok v
  | .var x t _ => .ok (env.getD x (zeroOf t))
  | .un .neg e p => (eval env e).bind fun v => lift p (negate v)
  | .un .not e p => (eval env e).bind fun v => lift p (unaryNot v)
  | .bin op l r t p => (eval env l).bind fun a => (eval env r).bind fun b => lift p (binStep op t a b)
  | .paren e _ => eval env e

/-- evaluate and convert to the type of the location that receives the value -/
def evalTo (env : List Val) (e : Ast.Expr) (target : Ty) : ERes :=
  (eval env e).bind fun v => lift e.pos (storeCast e.ty target v)

/-! ### output -/

/-- number of decimal digits of `n` after its trailing zeros are dropped (fuel = a bound on the number of digits) -/
def sigDigitsAux : Nat → Nat → Nat
  | 0, _ => 0
  | fuel + 1, n =>
    if n = 0 then 0
    else if n % 10 = 0 then sigDigitsAux fuel (n / 10)
    else (Nat.toDigits 10 n).length

def sigDigits (n : Nat) : Nat := sigDigitsAux (n.log2 + 2) n

/-- exact decimal of a dyadic rational with denominator `2^k`, `k ≤ 12`, and at most `maxDigits` significant decimal
digits (else `none`: no claim about how such a value prints — the implementation prints the shortest decimal that
reads back as the same binary32 / binary64 number, which is the exact decimal only when that is short enough) -/
def decOf (maxDigits : Nat) (q : Rat) : Option Print.Dec :=
  let d := q.den
  let k := d.log2
  if d == 2 ^ k && k ≤ 12 && sigDigits (q.num.natAbs * 5 ^ k) ≤ maxDigits then
    some ⟨decide (q.num < 0), q.num.natAbs * 5 ^ k, k⟩
  else none

def printValue : Val → Option Print.Value
  | .int i => some (.int i)
  | .long i => some (.long i)
  | .sgl q => (decOf 7 q).map .single
  | .dbl q => (decOf 15 q).map .double
  | .str s => some (.str s)

structure St where
  env : List Val
  out : Print.WritePrinter
  /-- the DATA items of the program (constant) and the READ cursor -/
  data : List Val
  dataIdx : Nat

inductive Outcome where
  | normal
  | halted
  | error (code : Nat) (p : Pos)
  | inexact
  | outOfFuel
  deriving Inhabited

def St.set (s : St) (x : Nat) (v : Val) : St := { s with env := s.env.set x v }

/-- `true` iff the statement list of a PRINT ends in a separator -/
def endsInSeparator : List PrintItem → Bool
  | [] => false
  | [.comma] => true
  | [.semicolon] => true
  | [_] => false
  | _ :: rest => endsInSeparator rest

/-- items of one PRINT statement, left to right -/
def printItems (s : St) : List PrintItem → St × Outcome
  | [] => (s, .normal)
  | .comma :: rest => printItems { s with out := s.out.moveToNextPrintZone } rest
  | .semicolon :: rest => printItems s rest
  | .expr e :: rest =>
    match eval s.env e with
    | .err c p => (s, .error c p)
    | .inexact => (s, .inexact)
    | .ok v =>
      match printValue v with
      | none => (s, .inexact)
      | some pv => printItems { s with out := s.out.print (Print.valueText pv) } rest

def truthy : Val → Option Bool
  | .int i => some (i != 0)
  | .long i => some (i != 0)
  | .sgl q => some (q != 0)
  | .dbl q => some (q != 0)
  | .str _ => none

/-- a condition: the value's truth, or the outcome that ends the statement -/
def evalCond (env : List Val) (c : Ast.Expr) : Except Outcome Bool :=
  match eval env c with
  | .err code p => .error (.error code p)
  | .inexact => .error .inexact
  | .ok v =>
    match truthy v with
    | some b => .ok b
    | none => .error (.error 13 c.pos)

/-- comparison of the SELECT CASE subject with one CASE item; errors carry the SELECT's position -/
def relTest (p : Pos) (op : Op) (a b : Val) : Except Outcome Bool :=
  match tryCmp a b with
  | .ok o => .ok (relHolds op o)
  | .err e => .error (.error (codeOf e) p)
  | .inexact => .error .inexact

def evalE (env : List Val) (e : Ast.Expr) : Except Outcome Val :=
  match eval env e with
  | .ok v => .ok v
  | .err c p => .error (.error c p)
  | .inexact => .error .inexact

def caseMatches (env : List Val) (p : Pos) (subject : Val) : CaseExpr → Except Outcome Bool
  | .simple e => do
      let v ← evalE env e
      relTest p .equal subject v
  | .is op e => do
      let v ← evalE env e
      relTest p op subject v
  | .range lo hi => do
      let l ← evalE env lo
      let b1 ← relTest p .greaterOrEqual subject l
      if b1 then
        let h ← evalE env hi
        relTest p .lessOrEqual subject h
      else pure false

def anyMatches (env : List Val) (p : Pos) (subject : Val) : List CaseExpr → Except Outcome Bool
  | [] => pure false
  | c :: rest => do
      if ← caseMatches env p subject c then pure true else anyMatches env p subject rest

/-- sign of a FOR step as the loop header decides it: `step < 0`, else `step > 0`, else zero -/
inductive StepSign where
  | neg | pos | zero

def stepSign (p : Pos) (s : Val) : Except Outcome StepSign := do
  if ← relTest p .less s (.int 0) then pure .neg
  else if ← relTest p .greater s (.int 0) then pure .pos
  else pure .zero

mutual
/-- `exec fuel stmt state`: the state after the statement (output included) and how it ended -/
def exec : Nat → Stmt → St → St × Outcome
  | 0, _, s => (s, .outOfFuel)
  | _ + 1, .skip, s => (s, .normal)
  | fuel + 1, .seq a b, s =>
    match exec fuel a s with
    | (s', .normal) => exec fuel b s'
    | r => r
  | _ + 1, .assign x t e _, s =>
    match evalTo s.env e t with
    | .ok v => (s.set x v, .normal)
    | .err c p => (s, .error c p)
    | .inexact => (s, .inexact)
  | _ + 1, .print items _, s =>
    match printItems s items with
    | (s', .normal) =>
      if endsInSeparator items then (s', .normal) else ({ s' with out := s'.out.println }, .normal)
    | r => r
  | _ + 1, .read x t p, s =>
    match s.data[s.dataIdx]? with
    | none => (s, .error codeOutOfData p)
    | some v =>
      match cast v t with
      | .ok w => ({ s.set x w with dataIdx := s.dataIdx + 1 }, .normal)
      | .err e => (s, .error (codeOf e) p)
      | .inexact => (s, .inexact)
  | fuel + 1, .ifs c thn els _, s =>
    match evalCond s.env c with
    | .error o => (s, o)
    | .ok true => exec fuel thn s
    | .ok false => exec fuel els s
  | fuel + 1, .select e cases p, s =>
    match evalE s.env e with
    | .error o => (s, o)
    | .ok subject => execCases fuel p subject cases s
  | fuel + 1, .forLoop x t lo hi step body p, s =>
    match evalTo s.env lo t with
    | .err c q => (s, .error c q)
    | .inexact => (s, .inexact)
    | .ok l =>
      let s := s.set x l
      match evalTo s.env hi t with
      | .err c q => (s, .error c q)
      | .inexact => (s, .inexact)
      | .ok h =>
        match step with
        | none => forIter fuel x t h (.int 1) true body p s
        | some se =>
          match evalE s.env se with
          | .error o => (s, o)
          | .ok sv =>
            match stepSign p sv with
            | .error o => (s, o)
            | .ok .neg => forIter fuel x t h sv false body p s
            | .ok .pos => forIter fuel x t h sv true body p s
            | .ok .zero => (s, .error codeZeroStep se.pos)
  | fuel + 1, .while c body p, s =>
    match evalCond s.env c with
    | .error o => (s, o)
    | .ok false => (s, .normal)
    | .ok true =>
      match exec fuel body s with
      | (s', .normal) => exec fuel (.while c body p) s'
      | r => r
  | fuel + 1, .doLoop c top until_ body p, s =>
    if top then
      match evalCond s.env c with
      | .error o => (s, o)
      | .ok b =>
        if b != until_ then
          match exec fuel body s with
          | (s', .normal) => exec fuel (.doLoop c top until_ body p) s'
          | r => r
        else (s, .normal)
    else
      match exec fuel body s with
      | (s', .normal) =>
        match evalCond s'.env c with
        | .error o => (s', o)
        | .ok b => if b != until_ then exec fuel (.doLoop c top until_ body p) s' else (s', .normal)
      | r => r
  | _ + 1, .end_ _, s => (s, .halted)
/-- the first CASE block one of whose items matches runs; else the CASE ELSE block; else nothing -/
def execCases : Nat → Pos → Val → Cases → St → St × Outcome
  | 0, _, _, _, s => (s, .outOfFuel)
  | _ + 1, _, _, .nil, s => (s, .normal)
  | fuel + 1, _, _, .else_ body, s => exec fuel body s
  | fuel + 1, p, subject, .case conds body rest, s =>
    match anyMatches s.env p subject conds with
    | .error o => (s, o)
    | .ok true => exec fuel body s
    | .ok false => execCases fuel p subject rest s
/-- one test-body-increment round of a FOR loop whose limit `h`, step `sv` and direction are fixed -/
def forIter : Nat → Nat → Ty → Val → Val → Bool → Stmt → Pos → St → St × Outcome
  | 0, _, _, _, _, _, _, _, s => (s, .outOfFuel)
  | fuel + 1, x, t, h, sv, up, body, p, s =>
    let cur := s.env.getD x (zeroOf t)
    match relTest p (if up then .lessOrEqual else .greaterOrEqual) cur h with
    | .error o => (s, o)
    | .ok false => (s, .normal)
    | .ok true =>
      match exec fuel body s with
      | (s', .normal) =>
        let cur' := s'.env.getD x (zeroOf t)
        match (plus cur' sv).bind (fun v => cast v t) with
        | .ok v => forIter fuel x t h sv up body p (s'.set x v)
        | .err e => (s', .error (codeOf e) p)
        | .inexact => (s', .inexact)
      | r => r
end

/-- run a whole program -/
def run (fuel : Nat) (prog : Program) : St × Outcome :=
  exec fuel prog.body
    { env := prog.slots.map zeroOf, out := Print.WritePrinter.new, data := prog.data, dataIdx := 0 }

end RbModel.Ref
