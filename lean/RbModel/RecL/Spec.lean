import RbModel.RecL.Ref
import RbModel.RecL.Vm
/-!
# RbModel.RecL.Spec — PROPOSED statements of phase B (definitions only, nothing proved)

`CompileCorrect` is the statement `RecL.compile_correct` phase B should prove (the VM model on the generator model's
code does what `RecL.Ref` prescribes), with the invariants it is expected to need spelled out as definitions so that
they type-check against the three models; `StoreChangesOnlyThatField` and `FixedStringAlwaysNChars` (with their
`def … : Prop` instances `store_changes_only_that_field`, `fixed_string_always_n_chars`) are the two property-level
statements of C04 phase B should derive FROM THE REFERENCE SEMANTICS ALONE.
Everything here is a `def … : Prop`; there is no theorem, no `sorry`, no axiom.  Shapes follow `Thm/C01SimBase.lean`,
`RbModel/Proc/Spec.lean` and `RbModel/ArrL/Spec.lean`.

Expected proof structure: `ExprSpec` by structural induction on the expression (expressions do not change the reference
state, there are no calls: no fuel); `StmtSpec` by induction on the fuel of `Ref.exec` with every C01 case lemma ported
(register A is `ArrPath.Val.leaf v` where C01 has `v`).  The new cases are
* `var x path`: `VarPathName` + one `VarPathProperty` per field builds `⟨x, path⟩` on the path stack; `readPath` =
  `ArrPath.getAt` along `path` on the tree; `ValRel` transports `RV.getPath` to `getAt` (induction on the path,
  `FieldsRel` + `Arr.getField` on a list of distinct folded names: `RbThm.C04.field_get_set_same` & co. are stated over
  exactly these `Rec` operations);
* `assign x path`: value first (`ExprSpec`), conversion (`conv` vs `Cast` / `FixLength`: `ConvRel`), then `writePath` =
  `ArrPath.modAt`; `ValRel` preserved by `RV.setPath` vs `modAt` (`RbThm.C04Path.path_read_store_same/_other` give the
  read-back facts on the VM side);
* `dim`: `allocTy` vs `fresh` (`ValRel (fresh t) (allocTy t)` by mutual induction on the type; needs the field names of
  one type pairwise distinct and upper-case so that `Arr.Rec.new` is the identity on the pair list);
* `FixLength`: `Arr.fixLength cs n = Ref.padTrunc n cs` when `cs` holds no NUL (`NoNul`: literals and DATA items of the
  program; preserved by concatenation, `padTrunc`, copies), and `fixLength_length` (`Thm/C04.lean`).
-/
namespace RbModel.RecL.Spec
open RbModel RbModel.Num RbModel.RecL RbModel.RecL.Compile RbModel.RecL.Vm
open RbModel.Ast (Pos)

/-- zero or more `next` steps -/
inductive Steps (code : Code) : Vm → Vm → Prop where
  | refl (σ : Vm) : Steps code σ σ
  | cons {σ σ' σ'' : Vm} : step code σ = .next σ' → Steps code σ' σ'' → Steps code σ σ''

/-- `code` contains `c` at address `off` -/
def CodeAt (code : Code) (off : Nat) (c : Code) : Prop :=
  ∀ i, i < c.length → code[off + i]? = c[i]?

/-! ### representation: a reference value (finite map) vs a VM value (`Variant` tree) -/

mutual
/-- a VM tree represents a reference value: a scalar is the same scalar; a record has the same fields in the same
order (the VM keys are the character lists of the names), field by field -/
def ValRel : Ref.RV → Vm.RV → Prop
  | .sc v, w => w = .leaf v
  | .udt fs, w => ∃ vfs, w = .udt vfs ∧ FieldsRel fs vfs
def FieldsRel : Ref.RFs → List (List Char × Vm.RV) → Prop
  | .nil, vfs => vfs = []
  | .cons f v rest, vfs => ∃ w tail, vfs = (f.toList, w) :: tail ∧ ValRel v w ∧ FieldsRel rest tail
end

/-! ### typing: the invariant behind "a STRING * n location always holds exactly n characters" -/

mutual
/-- a reference value has a declared type: a scalar of the type's tag, a string of EXACTLY `n` characters for
`STRING * n`, a record with exactly the declared fields, each of its type -/
def HasTy : FTy → Ref.RV → Prop
  | .sc t, v => ∃ a, v = .sc a ∧ a.tag = t
  | .fix n, v => ∃ cs, v = .sc (.str cs) ∧ cs.length = n
  | .udt _ fs, v => ∃ rfs, v = .udt rfs ∧ FieldsHaveTy fs rfs
def FieldsHaveTy : FFields → Ref.RFs → Prop
  | .nil, r => r = .nil
  | .cons f t rest, r => ∃ v rr, r = .cons f v rr ∧ HasTy t v ∧ FieldsHaveTy rest rr
end

/-- every variable that exists has its declared type -/
def EnvTyped (types : List FFields) (slots : List ETy) (env : Ref.Env) : Prop :=
  env.length = slots.length ∧
  ∀ (x : Nat) (v : Ref.RV), env[x]? = some (some v) → ∃ st ft, slots[x]? = some st ∧ expand types st = some ft ∧ HasTy ft v

/-- no NUL character (the real `fix_length` cuts a string at the first NUL, `Ref.padTrunc` does not look) -/
def NoNulVal : Val → Prop
  | .str cs => Char.ofNat 0 ∉ cs
  | _ => True

mutual
def NoNul : Ref.RV → Prop
  | .sc v => NoNulVal v
  | .udt fs => NoNulFs fs
def NoNulFs : Ref.RFs → Prop
  | .nil => True
  | .cons _ v rest => NoNul v ∧ NoNulFs rest
end

/-! ### the static premise (what the linter establishes; to be given a boolean form and evaluated per program) -/

/-- the type table is closed and consistent: field names of one type pairwise distinct and already case-folded, a nested
record type is an EARLIER type and its inline expansion is that type's entry -/
def TypesWf (types : List FFields) : Prop :=
  ∀ (k : Nat) (fs : FFields), types[k]? = some fs →
    fs.names.Nodup ∧ (∀ f ∈ fs.names, Arr.foldName f.toList = f.toList) ∧
    ∀ (f : String) (j : Nat) (inner : FFields), fs.find f = some (FTy.udt j inner) → j < k ∧ types[j]? = some inner

/-- a field path from variable `x` leads to a location of static type `t` -/
def PathTyped (types : List FFields) (slots : List ETy) (x : Nat) (path : List String) (t : ETy) : Prop :=
  ∃ st root ft, slots[x]? = some st ∧ expand types st = some root ∧ root.at path = some ft ∧ ft.flat = t

/-- expressions: variables and fields exist at the type the node carries, operators see scalars and carry the type of
the checker's table (C01's premise), string literals hold no NUL -/
def ExprTyped (types : List FFields) (slots : List ETy) : Expr → Prop
  | .lit v _ => NoNulVal v
  | .var x path t _ => PathTyped types slots x path t
  | .un _ e _ => ExprTyped types slots e ∧ ∃ t, e.ty = .sc t
  | .bin op l r t _ =>
    ExprTyped types slots l ∧ ExprTyped types slots r ∧
      ∃ tl tr, Ref.ETy.asTy l.ty = some tl ∧ Ref.ETy.asTy r.ty = some tr ∧
        (op = .divide ∨ Gen.NumTables.binType op tl tr = some t)
  | .paren e _ => ExprTyped types slots e

/-- a value of static type `st` may be stored into a location of static type `tt` (what the linter accepts) -/
def CanStore (st tt : ETy) : Prop :=
  st = tt ∨
  match tt, Ref.ETy.asTy st with
  | .sc t, some s => (s = .str ↔ t = .str)
  | .fix _, some s => s = .str
  | _, _ => False

/-! ### the simulation -/

/-- the variables of the two states correspond slot by slot: an existing variable by `ValRel`, a record / `STRING * n`
variable whose `DIM` has not run is still what `get_or_create` makes of its name -/
def VarsRel (slots : List ETy) (env : Ref.Env) (vars : List Vm.RV) : Prop :=
  env.length = slots.length ∧ vars.length = slots.length ∧
  ∀ x : Nat, match env[x]?, vars[x]?, slots[x]? with
    | some (some rv), some w, some _ => ValRel rv w
    | some none, some w, some st => w = defaultVar st
    | none, none, none => True
    | _, _, _ => False

/-- the relation between a reference state and a VM state at a statement or expression boundary -/
def Rel (slots : List ETy) (s : Ref.St) (σ : Vm) : Prop :=
  VarsRel slots s.env σ.vars ∧ σ.types = s.types ∧ σ.out = s.out ∧ σ.data = s.data ∧ σ.dataIdx = s.dataIdx ∧
  σ.queue = [] ∧ EnvTyped s.types slots s.env ∧ (∀ (x : Nat) (v : Ref.RV), s.env[x]? = some (some v) → NoNul v) ∧
  (∀ v ∈ s.data, NoNulVal v)

/-- what a construct leaves alone: value stack, path stack, register stack, the open argument lists, the stack trace,
the pending PRINT separator -/
def SameStacks (σ σ' : Vm) : Prop :=
  σ'.vals = σ.vals ∧ σ'.paths = σ.paths ∧ σ'.regStack = σ.regStack ∧ σ'.ctx = σ.ctx ∧ σ'.trace = σ.trace ∧
  σ'.skipNewline = σ.skipNewline

/-- the run ends in an error `(c, p)` with the output `out` -/
def ErrsWith (code : Code) (σ : Vm) (c : Nat) (p : Pos) (out : Print.WritePrinter) : Prop :=
  ∃ σ1 σ2, Steps code σ σ1 ∧ step code σ1 = .error c p σ2 ∧ σ2.out = out

/-- the run halts with the output `out` -/
def HaltsWith (code : Code) (σ : Vm) (out : Print.WritePrinter) : Prop :=
  ∃ σ1 σ2, Steps code σ σ1 ∧ step code σ1 = .halt σ2 ∧ σ2.out = out

/-- expression evaluation (`Ref.eval`) vs the code of `compileExpr` at `off`: the value — a scalar or a whole record —
ends up in A -/
def ExprSpec (slots : List ETy) (code : Code) (e : Expr) : Prop :=
  ∀ off s σ, CodeAt code off (compileExpr e) → σ.pc = off → Rel slots s σ →
    match Ref.eval s.env e with
    | .ok v =>
      ∃ σ', Steps code σ σ' ∧ σ'.pc = off + (compileExpr e).length ∧ ValRel v σ'.regs.a ∧ Rel slots s σ' ∧
        SameStacks σ σ' ∧ σ'.regs.c = σ.regs.c ∧ σ'.regs.d = σ.regs.d
    | .err c p => ErrsWith code σ c p s.out
    | _ => True

/-- the conversion in front of a store: `Ref.conv` vs the instruction `convInstr` emits (`Cast` / `FixLength`) -/
def ConvSpec (slots : List ETy) (code : Code) (e : Expr) (target : ETy) : Prop :=
  ∀ off s σ, CodeAt code off (compileExprToE e target) → σ.pc = off → Rel slots s σ → CanStore e.ty target →
    match Ref.evalTo s.env e target with
    | .ok v =>
      ∃ σ', Steps code σ σ' ∧ σ'.pc = off + (compileExprToE e target).length ∧ ValRel v σ'.regs.a ∧ Rel slots s σ' ∧
        SameStacks σ σ' ∧ σ'.regs.c = σ.regs.c ∧ σ'.regs.d = σ.regs.d
    | .err c p => ErrsWith code σ c p s.out
    | _ => True

/-- statement execution (`Ref.exec`) vs the code of `compileStmt` at `off` -/
def StmtSpec (slots : List ETy) (code : Code) (fuel : Nat) (st : SStmt) : Prop :=
  ∀ sfx off s σ, CodeAt code off (compileStmt sfx off st) → σ.pc = off → Rel slots s σ → σ.paths = [] → σ.ctx = [] →
    σ.skipNewline = false →
    match Ref.exec fuel (desugar st) s with
    | (s', .normal) =>
      ∃ σ', Steps code σ σ' ∧ σ'.pc = off + sizeStmt st ∧ Rel slots s' σ' ∧ SameStacks σ σ'
    | (s', .halted) => HaltsWith code σ s'.out
    | (s', .error c p) => ErrsWith code σ c p s'.out
    | _ => True

/-- PROPOSED main theorem (`RecL.compile_correct`): under a decidable static premise on the linted program (expected:
`SProgram.wf` + `TypesWf prog.types` + C01's `wfTopB` conditions with `ExprTyped` for expressions + every assignment
`x.path = e` has `PathTyped … x path t` and `CanStore e.ty t` + every `DIM x AS t` has `slots[x] = t` and `expand` defined
+ no NUL in literals and DATA), whatever the reference semantics says about a run — normal end, END, or error
`(code, position)` with the output so far — the VM model does on the model-compiled code.  The outcomes `illFormed`
(a record / `STRING * n` variable used although its `DIM` did not run), `inexact` and `outOfFuel` claim nothing. -/
def CompileCorrect (Premise : SProgram → Prop) : Prop :=
  ∀ (prog : SProgram) (fuel : Nat), Premise prog →
    match Ref.run fuel prog.toAst with
    | (s, .normal) => HaltsWith (compile prog) (Vm.init prog.types prog.slots) s.out
    | (s, .halted) => HaltsWith (compile prog) (Vm.init prog.types prog.slots) s.out
    | (s, .error c p) => ErrsWith (compile prog) (Vm.init prog.types prog.slots) c p s.out
    | _ => True

/-! ### property-level statements over the reference semantics alone (C04) -/

/-- two field paths below one variable denote locations that do not overlap: neither is a prefix of the other -/
def Apart (q path : List String) : Prop := ¬ q <+: path ∧ ¬ path <+: q

/-- reading the location `x.q` in a state -/
def readLoc (s : Ref.St) (x : Nat) (q : List String) : Option Ref.RV :=
  match s.env[x]? with
  | some (some v) => v.getPath q
  | _ => none

/-- "Storing into one record field changes that field and nothing else": whenever `x.path = e` ends normally from `s`
in `s'`, `e` having the value `v` after conversion to the static type `t` of the target, then afterwards (1) `x.path`
reads `v` (for a record-typed field: the whole copied record, so every location below it reads as in the source);
(2) every location `x.q` apart from it — a sibling field, a field of another sub-record, at any depth — reads what it read
before; (3) a location `x.q` ABOVE it (a proper prefix: an enclosing record) still has the same field names; (4) every
other variable is untouched; (5) the output and the DATA cursor are untouched. -/
def StoreChangesOnlyThatField : Prop :=
  ∀ (fuel : Nat) (x : Nat) (path : List String) (t : ETy) (e : Expr) (p : Pos) (s s' : Ref.St),
    Ref.exec fuel (.assign x path t e p) s = (s', .normal) →
    ∃ v, Ref.evalTo s.env e t = .ok v ∧
      readLoc s' x path = some v ∧
      (∀ q, Apart q path → readLoc s' x q = readLoc s x q) ∧
      (∀ (q : List String) (fs : Ref.RFs), q <+: path → q ≠ path → readLoc s x q = some (.udt fs) →
        ∃ fs', readLoc s' x q = some (.udt fs') ∧ fs'.names = fs.names) ∧
      (∀ y : Nat, y ≠ x → s'.env[y]? = s.env[y]?) ∧
      s'.out = s.out ∧ s'.dataIdx = s.dataIdx ∧ s'.data = s.data ∧ s'.types = s.types

def store_changes_only_that_field : Prop := StoreChangesOnlyThatField

/-- the conversion to `STRING * n` yields exactly `n` characters — the first `n` of the source, then spaces — whatever
the source string (empty, shorter, longer, a `STRING * m` value) -/
def ConvFixExact : Prop :=
  ∀ (p : Pos) (st : ETy) (n : Nat) (cs : List Char) (w : Ref.RV),
    st ≠ .fix n → Ref.conv p st (.fix n) (.sc (.str cs)) = .ok w →
    ∃ ds, w = .sc (.str ds) ∧ ds.length = n ∧ ds.take (min n cs.length) = cs.take n ∧
      ∀ i, cs.length ≤ i → i < n → ds[i]? = some ' '

/-- a fresh value has its type: in particular every `STRING * n` inside a fresh record holds `n` spaces -/
def FreshTyped : Prop := ∀ ft : FTy, HasTy ft (Ref.fresh ft)

/-- one statement keeps every existing variable at its declared type, provided the statement is statically typed
(`StmtTyped`, supplied by the premise of the whole-program statement below) -/
def ExecPreservesTyping (StmtTyped : List FFields → List ETy → Stmt → Prop) : Prop :=
  ∀ (fuel : Nat) (slots : List ETy) (st : Stmt) (s s' : Ref.St) (o : Ref.Outcome),
    StmtTyped s.types slots st → EnvTyped s.types slots s.env → Ref.exec fuel st s = (s', o) →
    EnvTyped s'.types slots s'.env ∧ s'.types = s.types

/-- "A STRING * n variable or field always holds exactly n characters (padded with spaces or truncated) however it was
assigned": for every statically typed program, every fuel and however the run ends (normally, END, error, out of
fuel), every existing variable of the final state has its declared type (`HasTy`: every `STRING * n` location at any
depth — a variable, a field, a field of a nested record — holds a string of exactly `n` characters); hence every
`STRING * n`-typed expression `x.path` that evaluates yields `n` characters.  Since the statement holds for every fuel it
holds at every intermediate state of the run. -/
def FixedStringAlwaysNChars (ProgTyped : Program → Prop) : Prop :=
  ∀ (P : Program) (fuel : Nat) (s' : Ref.St) (o : Ref.Outcome),
    ProgTyped P → Ref.run fuel P = (s', o) →
    EnvTyped P.types P.slots s'.env ∧
    ∀ (x : Nat) (path : List String) (n : Nat) (q : Pos) (v : Ref.RV),
      PathTyped P.types P.slots x path (.fix n) → Ref.eval s'.env (.var x path (.fix n) q) = .ok v →
      ∃ cs, v = .sc (.str cs) ∧ cs.length = n

def CaseTyped (types : List FFields) (slots : List ETy) : CaseExpr → Prop
  | .simple e => ExprTyped types slots e
  | .is _ e => ExprTyped types slots e
  | .range lo hi => ExprTyped types slots lo ∧ ExprTyped types slots hi

mutual
/-- the static typing of the desugared statements: what the linter establishes about locations, stored values, READ
targets and FOR counters (C01's conditions on conditions / CASE items are not needed for typing preservation) -/
def StmtTyped (types : List FFields) (slots : List ETy) : Stmt → Prop
  | .skip => True
  | .seq a b => StmtTyped types slots a ∧ StmtTyped types slots b
  | .dim x t _ => slots[x]? = some t ∧ (expand types t).isSome
  | .assign x path t e _ => PathTyped types slots x path t ∧ ExprTyped types slots e ∧ CanStore e.ty t
  | .print items _ => ∀ it ∈ items, match it with | .expr e => ExprTyped types slots e | _ => True
  | .read tg _ => slots[tg.x]? = some (.sc tg.t)
  | .ifs c thn els _ => ExprTyped types slots c ∧ StmtTyped types slots thn ∧ StmtTyped types slots els
  | .select e cases _ => ExprTyped types slots e ∧ CasesTyped types slots cases
  | .forLoop x t lo hi step body _ =>
    slots[x]? = some (.sc t) ∧ t ≠ .str ∧ ExprTyped types slots lo ∧ ExprTyped types slots hi ∧
      (∀ se, step = some se → ExprTyped types slots se) ∧ StmtTyped types slots body
  | .while c body _ => ExprTyped types slots c ∧ StmtTyped types slots body
  | .doLoop c _ _ body _ => ExprTyped types slots c ∧ StmtTyped types slots body
  | .end_ _ => True
def CasesTyped (types : List FFields) (slots : List ETy) : Cases → Prop
  | .nil => True
  | .else_ body => StmtTyped types slots body
  | .case conds body rest =>
    (∀ c ∈ conds, CaseTyped types slots c) ∧ StmtTyped types slots body ∧ CasesTyped types slots rest
end

/-- a statically typed program -/
def ProgTyped (P : Program) : Prop :=
  TypesWf P.types ∧ StmtTyped P.types P.slots P.body ∧ (∀ t ∈ P.slots, (expand P.types t).isSome)

/-- PROPOSED property-level statement: the whole-run invariant for statically typed programs, with the two facts it
rests on (the conversion yields exactly n characters; a fresh value is typed) -/
def fixed_string_always_n_chars : Prop :=
  FixedStringAlwaysNChars ProgTyped ∧ ExecPreservesTyping StmtTyped ∧ ConvFixExact ∧ FreshTyped

end RbModel.RecL.Spec
