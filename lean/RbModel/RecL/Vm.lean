import RbModel.RecL.Compile
import RbModel.RecL.Ref
import RbModel.ArrPath
/-!
# RbModel.RecL.Vm — model of the VM with records and fixed-length strings (property C04, phase A)

`RbModel.CoreVm` extended with what `RecL.Compile.CInstr` needs beyond the core
(`rusty_basic/src/interpreter/main.rs`, `handlers/{var_path, allocation, cast}.rs`, `string_utils.rs::fix_length`,
`variables.rs`, `built_ins/read.rs`):

* a variable holds a `RbModel.ArrPath.Val` — the `Variant` TREE of the real VM: a scalar leaf or a
  `UserDefinedTypeValue` (`ArrPath.Val.udt`: the fields in declaration order keyed by the case-folded name, built by
  `Arr.Rec.new` as `UserDefinedTypeValue::new` does); field access is `ArrPath.stepGet` / `ArrPath.stepSet` with a
  `fld` step (= `get_mut` + store; `Thm/C04.lean` / `Thm/C04Path.lean` prove a store changes that field and nothing
  else) composed along the path by `ArrPath.getAt` / `ArrPath.modAt` (= `resolve_some_name_ptr_mut`: parent first);
* register A, the value stack, the collected arguments and the by-reference queue hold such trees (`a = b` copies a
  whole record through A); B, C, D only ever hold scalars in generated code (`CopyAToB` … with a record in A is `stuck`);
* the path stack holds `Path`s: a root variable and the field names appended so far (`VarPathProperty`).
  `CopyVarPathToA` resolves the top path WITHOUT popping it, `CopyAToVarPath` resolves, stores and pops;
* before its `DIM` has run a variable reads as what `Variables::get_or_create` makes of its name: zero / "" of the
  qualifier's type — also for a `STRING * n` variable: the EMPTY string, not n spaces —, INTEGER 0 (`V_FALSE`) for the
  unqualified name of a record variable; a field step on such a leaf is `stuck` (the real VM panics: "Expected user
  defined type");
* `AllocateUserDefined` builds the tree from the type (`allocate_user_defined_type_inner`: 0 / n spaces / nested
  record), `AllocateFixedLengthString n` loads n spaces;
* `FixLength n` = `handlers/cast.rs::fix_length_in_a` = `ArrPath.fixLengthInA`: cast to `$` (Type mismatch for a
  number), then `Arr.fixLength` (the repaired `fix_length`: cut at the first NUL, pop / push to exactly n characters);
* `ctx`, `queue`, `trace`: as in the arrays layer, for DATA / READ only.

`stuck` marks what the real VM answers with a panic or what the model does not cover.
-/
namespace RbModel.RecL.Vm
open RbModel RbModel.Num RbModel.RecL RbModel.RecL.Compile
open RbModel.Ast (Pos)

/-- a `Variant`: a scalar leaf or a record tree (`ArrPath.Val.arr` is not used in this fragment) -/
abbrev RV := ArrPath.Val

instance : Inhabited RV := ⟨.leaf (.int 0)⟩

structure Regs where
  a : RV
  b : Val
  c : Val
  d : Val
  deriving Inhabited

def Regs.new : Regs := ⟨.leaf (.int 0), .int 0, .int 0, .int 0⟩

/-- `instruction_generator::Path` restricted to `Root` and `Property(…, name)` -/
structure Path where
  root : Nat
  props : List String

/-- one open `BeginCollectArguments` -/
structure Call where
  args : List (RV × Option Path)

structure Vm where
  pc : Nat
  regs : Regs
  regStack : List Regs
  /-- `value_stack`, top first -/
  vals : List RV
  /-- `var_path_stack`, top first -/
  paths : List Path
  /-- the record types of the program (`UserDefinedTypes`, constant) -/
  types : List FFields
  vars : List RV
  out : Print.WritePrinter
  skipNewline : Bool
  data : List Val
  dataIdx : Nat
  ctx : List Call
  /-- `by_ref_stack` (a queue) -/
  queue : List (RV × Option Path)
  trace : List Pos

/-- `Variables::get_or_create` on a name that has not been stored yet: `default_value_for_name` -/
def defaultVar : ETy → RV
  | .sc t => .leaf (zeroOf t)
  | .fix _ => .leaf (.str [])
  | .udt _ => .leaf (.int 0)

def Vm.init (types : List FFields) (slots : List ETy) : Vm :=
  { pc := 0, regs := Regs.new, regStack := [], vals := [], paths := [], types := types, vars := slots.map defaultVar,
    out := Print.WritePrinter.new, skipNewline := false, data := [], dataIdx := 0, ctx := [], queue := [], trace := [] }

inductive StepRes where
  | next (σ : Vm)
  | halt (σ : Vm)
  | error (code : Nat) (p : Pos) (σ : Vm)
  | stuck

def setA (σ : Vm) (v : Val) : Vm := { σ with regs := { σ.regs with a := .leaf v } }

def setRA (σ : Vm) (v : RV) : Vm := { σ with regs := { σ.regs with a := v } }

def advance (σ : Vm) : Vm := { σ with pc := σ.pc + 1 }

abbrev codeOf := _root_.RbModel.Ref.codeOf

def resA (σ : Vm) (p : Pos) : Res Val → StepRes
  | .ok v => .next (advance (setA σ v))
  | .err e => .error (codeOf e) p σ
  | .inexact => .stuck

def binInstr (op : Op) (a b : Val) : Res Val :=
  match op with
  | .divide => divide a b
  | _ => vmBin Gen.NumTables.binType op a b

/-- an operation on the scalar in A -/
def onA (σ : Vm) (f : Val → StepRes) : StepRes :=
  match σ.regs.a with
  | .leaf v => f v
  | _ => .stuck

/-! ### allocation: `handlers/allocation.rs` -/

mutual
/-- `allocate_element_type` -/
def allocTy : FTy → RV
  | .sc t => .leaf (zeroOf t)
  | .fix n => .leaf (.str (List.replicate n ' '))
  | .udt _ fs => .udt (Arr.Rec.new (allocFields fs)).fields
/-- the `(name, value)` vector handed to `UserDefinedTypeValue::new` -/
def allocFields : FFields → List (List Char × RV)
  | .nil => []
  | .cons f t rest => (f.toList, allocTy t) :: allocFields rest
end

/-! ### paths: `resolve_some_name_ptr_mut` -/

def Path.steps (pth : Path) : List ArrPath.Step := pth.props.map fun f => .fld f.toList

/-- `copy_var_path_to_a`: `none` = one of the panics ("Expected user defined type", "Property not defined") -/
def readPath (σ : Vm) (pth : Path) : Option RV :=
  match σ.vars[pth.root]? with
  | some v => ArrPath.getAt v pth.steps
  | none => none

/-- `copy_a_to_var_path` (without the pop) -/
def writePath (σ : Vm) (pth : Path) (w : RV) : Option Vm :=
  match σ.vars[pth.root]? with
  | some v =>
    match ArrPath.modAt v pth.steps (fun _ => some w) with
    | some v' => some { σ with vars := σ.vars.set pth.root v' }
    | none => none
  | none => none

/-! ### built-ins -/

/-- `READ` (`built_ins/read.rs`): every argument, in order, receives the next DATA item converted to the type of the
value it holds -/
def readArgs : List (RV × Option Path) → List Val → Nat → Except Err (List (RV × Option Path) × Nat) ⊕ Unit
  | [], _, idx => .inl (.ok ([], idx))
  | (.leaf cur, pth) :: rest, data, idx =>
    match data[idx]? with
    | none => .inr ()
    | some v =>
      match cast v cur.tag with
      | .ok w =>
        match readArgs rest data (idx + 1) with
        | .inl (.ok (rs, idx')) => .inl (.ok ((.leaf w, pth) :: rs, idx'))
        | r => r
      | .err e => .inl (.error e)
      | .inexact => .inl (.error .typeMismatch)
  | _ :: _, _, _ => .inl (.error .typeMismatch)

def step (code : Code) (σ : Vm) : StepRes :=
  match code[σ.pc]? with
  | none => .stuck
  | some (i, p) =>
    match i with
    | .loadA v => .next (advance (setA σ v))
    | .copyAToB => onA σ fun v => .next (advance { σ with regs := { σ.regs with b := v } })
    | .copyAToC => onA σ fun v => .next (advance { σ with regs := { σ.regs with c := v } })
    | .copyAToD => onA σ fun v => .next (advance { σ with regs := { σ.regs with d := v } })
    | .copyCToB => .next (advance { σ with regs := { σ.regs with b := σ.regs.c } })
    | .copyDToA => .next (advance (setA σ σ.regs.d))
    | .copyDToB => .next (advance { σ with regs := { σ.regs with b := σ.regs.d } })
    | .bin op => onA σ fun v => resA σ p (binInstr op v σ.regs.b)
    | .negateA => onA σ fun v => resA σ p (negate v)
    | .notA => onA σ fun v => resA σ p (unaryNot v)
    | .cast t => onA σ fun v => resA σ p (cast v t)
    | .fixLength n => onA σ fun v => resA σ p (ArrPath.fixLengthInA n v)
    | .pushA => .next (advance { σ with vals := σ.regs.a :: σ.vals })
    | .popA =>
      match σ.vals with
      | [] => .stuck
      | v :: rest => .next (advance { setRA σ v with vals := rest })
    | .varPath x => .next (advance { σ with paths := ⟨x, []⟩ :: σ.paths })
    | .prop f =>
      -- `var_path_property`
      match σ.paths with
      | pth :: rest => .next (advance { σ with paths := { pth with props := pth.props ++ [f] } :: rest })
      | [] => .stuck
    | .copyVarPathToA =>
      match σ.paths with
      | [] => .stuck
      | pth :: _ =>
        match readPath σ pth with
        | some v => .next (advance (setRA σ v))
        | none => .stuck
    | .popVarPath =>
      match σ.paths with
      | [] => .stuck
      | _ :: rest => .next (advance { σ with paths := rest })
    | .copyAToVarPath =>
      match σ.paths with
      | [] => .stuck
      | pth :: rest =>
        match writePath σ pth σ.regs.a with
        | some σ' => .next (advance { σ' with paths := rest })
        | none => .stuck
    | .label _ => .next (advance σ)
    | .jump a => .next { σ with pc := a }
    | .jumpIfFalse a =>
      onA σ fun v =>
        match _root_.RbModel.Ref.truthy v with
        | none => .error 13 p σ
        | some true => .next (advance σ)
        | some false => .next { σ with pc := a }
    | .pushRegs => .next (advance { σ with regs := Regs.new, regStack := σ.regs :: σ.regStack })
    | .popRegs =>
      match σ.regStack with
      | [] => .stuck
      | r :: rest => .next (advance { σ with regs := r, regStack := rest })
    | .throwZeroStep => .error Ref.codeZeroStep p σ
    | .halt => .halt σ
    | .allocate t => .next (advance (setA σ (zeroOf t)))
    | .allocFix n => .next (advance (setA σ (.str (List.replicate n ' '))))
    | .allocUdt k =>
      match σ.types[k]? with
      | some fs => .next (advance (setRA σ (allocTy (.udt k fs))))
      | none => .stuck
    | .printSetPrinter => .next (advance { σ with skipNewline := false })
    | .printSetFormat =>
      match σ.regs.a with
      | .leaf (.str _) => .stuck
      | .leaf _ => .next (advance σ)
      | _ => .stuck
    | .printComma => .next (advance { σ with out := σ.out.moveToNextPrintZone, skipNewline := true })
    | .printSemicolon => .next (advance { σ with skipNewline := true })
    | .printValue =>
      onA σ fun v =>
        match _root_.RbModel.Ref.printValue v with
        | none => .stuck
        | some pv => .next (advance { σ with out := σ.out.print (Print.valueText pv), skipNewline := false })
    | .printEnd =>
      if σ.skipNewline then .next (advance { σ with skipNewline := false })
      else .next (advance { σ with out := σ.out.println })
    | .beginArgs => .next (advance { σ with ctx := ⟨[]⟩ :: σ.ctx })
    | .pushByVal =>
      match σ.ctx with
      | [] => .stuck
      | c :: rest => .next (advance { σ with ctx := { c with args := c.args ++ [(σ.regs.a, none)] } :: rest })
    | .pushByRef =>
      match σ.ctx, σ.paths with
      | c :: rest, pth :: paths =>
        .next (advance { σ with ctx := { c with args := c.args ++ [(σ.regs.a, some pth)] } :: rest, paths := paths })
      | _, _ => .stuck
    | .pushStack => .next (advance { σ with trace := p :: σ.trace })
    | .popStack =>
      match σ.ctx, σ.trace with
      | _ :: rest, _ :: tr => .next (advance { σ with ctx := rest, trace := tr })
      | _, _ => .stuck
    | .builtInData =>
      match σ.ctx with
      | [] => .stuck
      | c :: _ =>
        match c.args.mapM (fun a => match a.1 with | .leaf v => some v | _ => none) with
        | some vs => .next (advance { σ with data := σ.data ++ vs })
        | none => .stuck
    | .builtInRead =>
      match σ.ctx with
      | [] => .stuck
      | c :: rest =>
        match readArgs c.args σ.data σ.dataIdx with
        | .inr () => .error Ref.codeOutOfData (σ.trace.headD p) σ
        | .inl (.error e) => .error (codeOf e) (σ.trace.headD p) σ
        | .inl (.ok (args', idx')) => .next (advance { σ with ctx := { c with args := args' } :: rest, dataIdx := idx' })
    | .enqueue i =>
      match σ.ctx with
      | [] => .stuck
      | c :: _ =>
        match c.args[i]? with
        | none => .stuck
        | some a => .next (advance { σ with queue := σ.queue ++ [a] })
    | .dequeue =>
      match σ.queue with
      | [] => .stuck
      | (v, _) :: rest => .next (advance { setRA σ v with queue := rest })

inductive RunRes where
  | halted (σ : Vm)
  | error (code : Nat) (p : Pos) (σ : Vm)
  | stuck
  | outOfFuel

def run (code : Code) : Nat → Vm → RunRes
  | 0, _ => .outOfFuel
  | fuel + 1, σ =>
    match step code σ with
    | .next σ' => run code fuel σ'
    | .halt σ' => .halted σ'
    | .error c p σ' => .error c p σ'
    | .stuck => .stuck

end RbModel.RecL.Vm
