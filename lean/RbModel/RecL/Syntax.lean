import RbModel.Ast
import RbModel.Instr
/-!
# RbModel.RecL.Syntax — core language + records and fixed-length strings (property C04, phase A of the records layer)

The core language of `RbModel.Ast` / `RbModel.Src` (property C01: no procedures, no arrays) extended with user-defined
types and fixed-length strings, as the linter hands it to the code generator (`rusty_parser::{Statement, Expression}`
after `rusty_linter::core::lint`, plus the `UserDefinedTypes` table of the linter context):

* `TYPE … END TYPE` declarations: fields of the scalar types INTEGER / LONG / SINGLE / DOUBLE, `STRING * n`, and other
  record types (nesting).  The serialiser hands over every type EXPANDED (`FTy.udt k fields`: the type's number and its
  field list, nested types inline), so that allocation is structural recursion over the type (no look-up, no fuel);
* `DIM v AS <type>` for record variables, `DIM s AS STRING * n`, `DIM x AS INTEGER` … (`SStmt.dim` with an `ETy`);
* a variable with a (possibly empty) field path `v`, `v.f`, `v.f.g` as an expression (`Expr.var x path t`) and as an
  assignment target (`SStmt.assign x path t e`): scalar assignment, field assignment with the conversion the generator
  emits (`Cast` / `FixLength`), assignment to a `STRING * n` variable, whole-record assignment `a = b` and
  `a.f = b.g` between records of the same type.

The static type of an expression / a location is an `ETy`: a built-in type, `STRING * n` or record type number `k`
(`ExpressionType::{BuiltIn, FixedLengthString, UserDefined}`).  Field names are upper-cased by the serialiser
(`CaseInsensitiveString` compares and hashes case-insensitively).

What the real front end decides (checked against /repo, not assumed):
* a number assigned to a `STRING * n` / a `STRING * n` assigned to a number / two records compared / a record printed /
  `a = b` between different record types (even with identical fields): `TypeMismatch` at lint time;
* a type must be declared before it is used as a field type (`TypeNotDefined`), so nesting is finite;
* a field is NOT accepted as a FOR counter (`VariableRequired`);
* binary operators on `STRING * n` operands have a built-in (`$` / `%`) result type.

Conventions of the serialiser `harness/src/recl_sx.rs`: variables are numbered in order of first occurrence of the
resolved `(bare name, qualifier or none)`: a record variable has no qualifier, a `STRING * n` variable the qualifier `$`;
types are numbered in declaration order; every node keeps its source position.

Two levels as in C01: `SStmt` is the faithful syntax the generator sees (`RecL.Compile` is defined on it), `Stmt` the
leaner syntax of the reference semantics `RecL.Ref`; `desugar` relates them.

Excluded: procedures, arrays (also arrays of records and arrays as fields), SHARED / CONST, GOSUB / GOTO / labels,
ON ERROR, built-in functions (also `LEN`), READ into a field / a `STRING * n` variable, DATA inside blocks (`SStmt.wf`).
-/
namespace RbModel.RecL
open RbModel RbModel.Num
open RbModel.Ast (Pos ty? op? val? pos?)

/-! ### types -/

/-- the static type of an expression / a location: `ExpressionType::{BuiltIn, FixedLengthString, UserDefined}`
(record types by their number) -/
inductive ETy where
  | sc (t : Ty)
  | fix (n : Nat)
  | udt (k : Nat)
  deriving DecidableEq, Inhabited

mutual
/-- a type as declared, records expanded: `udt k fields` is record type number `k` with its fields in order -/
inductive FTy where
  | sc (t : Ty)
  | fix (n : Nat)
  | udt (k : Nat) (fields : FFields)
/-- the fields of a record type: (upper-cased) name and type, in declaration order -/
inductive FFields where
  | nil
  | cons (name : String) (t : FTy) (rest : FFields)
end

instance : Inhabited FTy := ⟨.sc .int⟩
instance : Inhabited FFields := ⟨.nil⟩

def FTy.flat : FTy → ETy
  | .sc t => .sc t
  | .fix n => .fix n
  | .udt k _ => .udt k

def FFields.names : FFields → List String
  | .nil => []
  | .cons f _ rest => f :: rest.names

def FFields.length : FFields → Nat
  | .nil => 0
  | .cons _ _ rest => rest.length + 1

/-- the declared type of field `f` -/
def FFields.find : FFields → String → Option FTy
  | .nil, _ => none
  | .cons g t rest, f => if g = f then some t else rest.find f

/-- the declared type at the end of a field path -/
def FTy.at : FTy → List String → Option FTy
  | t, [] => some t
  | .udt _ fs, f :: rest =>
    match fs.find f with
    | some t => t.at rest
    | none => none
  | _, _ :: _ => none

/-- the expanded type of a location type: a record type is looked up in the table of the program -/
def expand (types : List FFields) : ETy → Option FTy
  | .sc t => some (.sc t)
  | .fix n => some (.fix n)
  | .udt k => (types[k]?).map (.udt k)

/-! ### expressions -/

inductive Expr where
  | lit (v : Val) (p : Pos)
  /-- variable `x` followed by the field path `path` (`Variable` / `Property(Property(…), name)`; the generator gives
  every part of the path the position of the whole expression); `t` is the static type of the whole -/
  | var (x : Nat) (path : List String) (t : ETy) (p : Pos)
  | un (op : UnOp) (e : Expr) (p : Pos)
  /-- `t` is the static type the linter resolved for the node (`expression_type()`: always built-in) -/
  | bin (op : Op) (l r : Expr) (t : Ty) (p : Pos)
  | paren (e : Expr) (p : Pos)
  deriving Inhabited

def Expr.pos : Expr → Pos
  | .lit _ p => p | .var _ _ _ p => p | .un _ _ p => p | .bin _ _ _ _ p => p | .paren _ p => p

/-- `expression_type()` of the linted node -/
def Expr.ty : Expr → ETy
  | .lit v _ => .sc v.tag
  | .var _ _ t _ => t
  | .un _ e _ => e.ty
  | .bin _ _ _ t _ => .sc t
  | .paren e _ => e.ty

inductive PrintItem where
  | expr (e : Expr)
  | comma
  | semicolon
  deriving Inhabited

inductive CaseExpr where
  | simple (e : Expr)
  | is (op : Op) (e : Expr)
  | range (lo hi : Expr)
  deriving Inhabited

/-- a READ target: a scalar variable (fields and `STRING * n` variables as READ targets are outside the fragment) -/
structure ReadTarget where
  x : Nat
  t : Ty
  pos : Pos
  deriving Inhabited

/-! ### the lean syntax of the reference semantics -/

mutual
inductive Stmt where
  | skip
  | seq (a b : Stmt)
  /-- `DIM x AS t`: the variable becomes a fresh value of its type -/
  | dim (x : Nat) (t : ETy) (p : Pos)
  /-- `x.path = e`; `t` is the static type of the target location -/
  | assign (x : Nat) (path : List String) (t : ETy) (e : Expr) (p : Pos)
  | print (items : List PrintItem) (p : Pos)
  | read (tg : ReadTarget) (p : Pos)
  | ifs (c : Expr) (thn els : Stmt) (p : Pos)
  | select (e : Expr) (cases : Cases) (p : Pos)
  | forLoop (x : Nat) (t : Ty) (lo hi : Expr) (step : Option Expr) (body : Stmt) (p : Pos)
  | while (c : Expr) (body : Stmt) (p : Pos)
  | doLoop (c : Expr) (top until_ : Bool) (body : Stmt) (p : Pos)
  | end_ (p : Pos)
inductive Cases where
  | nil
  | else_ (body : Stmt)
  | case (conds : List CaseExpr) (body : Stmt) (rest : Cases)
end

instance : Inhabited Stmt := ⟨.skip⟩

/-! ### the faithful syntax of the generator -/

mutual
inductive SStmt where
  | skip
  | seq (a b : SStmt)
  | comment
  /-- `DIM x AS t` (also the implicit `DIM`s the linter inserts for undeclared scalars) -/
  | dim (x : Nat) (t : ETy) (p : Pos)
  | assign (x : Nat) (path : List String) (t : ETy) (e : Expr) (p : Pos)
  | print (items : List PrintItem) (p : Pos)
  | data (items : List (Val × Pos)) (p : Pos)
  | read (targets : List ReadTarget) (p : Pos)
  | ifBlock (c : Expr) (thn : SStmt) (elifs : ElseIfs) (hasElse : Bool) (els : SStmt) (p : Pos)
  | select (e : Expr) (cases : SCases) (hasElse : Bool) (els : SStmt) (p : Pos)
  | forLoop (x : Nat) (t : Ty) (lo hi : Expr) (step : Option Expr) (body : SStmt) (p : Pos)
  | while (c : Expr) (body : SStmt) (p : Pos)
  | doLoop (c : Expr) (top until_ : Bool) (body : SStmt) (p : Pos)
  | end_ (p : Pos)
inductive ElseIfs where
  | nil
  | cons (c : Expr) (body : SStmt) (rest : ElseIfs)
inductive SCases where
  | nil
  | cons (conds : List CaseExpr) (body : SStmt) (rest : SCases)
end

instance : Inhabited SStmt := ⟨.skip⟩

structure SProgram where
  /-- the record types in declaration order, each expanded -/
  types : List FFields
  /-- declared types of the variables -/
  slots : List ETy
  body : SStmt

structure Program where
  types : List FFields
  slots : List ETy
  data : List Val
  body : Stmt

def zeroOf : Ty → Val
  | .int => .int 0 | .long => .long 0 | .sgl => .sgl 0 | .dbl => .dbl 0 | .str => .str []

/-! ### desugaring -/

def readSeq (p : Pos) : List ReadTarget → Stmt
  | [] => .skip
  | tg :: rest => .seq (.read tg p) (readSeq p rest)

mutual
def desugar : SStmt → Stmt
  | .skip => .skip
  | .seq a b => .seq (desugar a) (desugar b)
  | .comment => .skip
  | .dim x t p => .dim x t p
  | .assign x path t e p => .assign x path t e p
  | .print items p => .print items p
  | .data _ _ => .skip
  | .read tgs p => readSeq p tgs
  | .ifBlock c thn elifs _ els p => .ifs c (desugar thn) (desugarElifs elifs (desugar els) p) p
  | .select e cases hasElse els p =>
    .select e (desugarCases cases (if hasElse then .else_ (desugar els) else .nil)) p
  | .forLoop x t lo hi step body p => .forLoop x t lo hi step (desugar body) p
  | .while c body p => .while c (desugar body) p
  | .doLoop c top u body p => .doLoop c top u (desugar body) p
  | .end_ p => .end_ p
def desugarElifs : ElseIfs → Stmt → Pos → Stmt
  | .nil, els, _ => els
  | .cons c body rest, els, p => .ifs c (desugar body) (desugarElifs rest els p) p
def desugarCases : SCases → Cases → Cases
  | .nil, tail => tail
  | .cons conds body rest, tail => .case conds (desugar body) (desugarCases rest tail)
end

/-- DATA items in program order (only top-level statements carry DATA) -/
def dataOf : SStmt → List Val
  | .seq a b => dataOf a ++ dataOf b
  | .data items _ => items.map (·.1)
  | _ => []

def SProgram.toAst (sp : SProgram) : Program :=
  ⟨sp.types, sp.slots, dataOf sp.body, desugar sp.body⟩

/-! ### well-formedness (decidable; the driver checks it on every program) -/

mutual
/-- `top`: the statement is a top-level statement of the program (DATA is allowed only there) -/
def SStmt.wf (top : Bool) : SStmt → Bool
  | .seq a b => a.wf top && b.wf top
  | .data _ _ => top
  | .ifBlock _ thn elifs _ els _ => thn.wf false && elifs.wf && els.wf false
  | .select _ cases _ els _ => cases.wf && els.wf false
  | .forLoop _ _ _ _ _ body _ => body.wf false
  | .while _ body _ => body.wf false
  | .doLoop _ _ _ body _ => body.wf false
  | _ => true
def ElseIfs.wf : ElseIfs → Bool
  | .nil => true
  | .cons _ body rest => body.wf false && rest.wf
def SCases.wf : SCases → Bool
  | .nil => true
  | .cons _ body rest => body.wf false && rest.wf
end

def SProgram.wf (sp : SProgram) : Bool := sp.body.wf true

/-! ### reader of the serialised linted program (`harness/src/recl_sx.rs`) -/

def ety? : Sexp → Option ETy
  | .list [.atom "fix", n] => do pure (.fix (← n.nat?))
  | .list [.atom "rec", k] => do pure (.udt (← k.nat?))
  | t => (ty? t).map .sc

mutual
partial def fty? : Sexp → Option FTy
  | .list [.atom "fix", n] => do pure (.fix (← n.nat?))
  | .list [.atom "rec", k, .list fs] => do pure (.udt (← k.nat?) (← ffields? fs))
  | t => (ty? t).map .sc
/-- `((<name> <fty>) …)` -/
partial def ffields? : List Sexp → Option FFields
  | [] => some .nil
  | .list [n, t] :: rest => do pure (.cons (← Instr.str? n) (← fty? t) (← ffields? rest))
  | _ => none
end

def path? : Sexp → Option (List String)
  | .list fs => fs.mapM Instr.str?
  | _ => none

partial def expr? : Sexp → Option Expr
  | .list [.atom "lit", v, r, c] => do pure (.lit (← val? v) (← pos? r c))
  | .list [.atom "var", x, path, t, r, c] => do pure (.var (← x.nat?) (← path? path) (← ety? t) (← pos? r c))
  | .list [.atom "neg", e, r, c] => do pure (.un .neg (← expr? e) (← pos? r c))
  | .list [.atom "not", e, r, c] => do pure (.un .not (← expr? e) (← pos? r c))
  | .list [.atom "bin", o, l, rr, t, r, c] => do
      pure (.bin (← op? o) (← expr? l) (← expr? rr) (← ty? t) (← pos? r c))
  | .list [.atom "paren", e, r, c] => do pure (.paren (← expr? e) (← pos? r c))
  | _ => none

def item? : Sexp → Option PrintItem
  | .atom "comma" => some .comma
  | .atom "semi" => some .semicolon
  | .list [.atom "e", e] => do pure (.expr (← expr? e))
  | _ => none

def caseExpr? : Sexp → Option CaseExpr
  | .list [.atom "simple", e] => do pure (.simple (← expr? e))
  | .list [.atom "is", o, e] => do pure (.is (← op? o) (← expr? e))
  | .list [.atom "range", a, b] => do pure (.range (← expr? a) (← expr? b))
  | _ => none

def readTarget? : Sexp → Option ReadTarget
  | .list [.atom "v", x, t, r, c] => do pure ⟨← x.nat?, ← ty? t, ← pos? r c⟩
  | _ => none

mutual
partial def sstmt? : Sexp → Option SStmt
  | .atom "comment" => some .comment
  | .list [.atom "dim", x, t, r, c] => do pure (.dim (← x.nat?) (← ety? t) (← pos? r c))
  | .list [.atom "assign", x, path, t, e, r, c] => do
      pure (.assign (← x.nat?) (← path? path) (← ety? t) (← expr? e) (← pos? r c))
  | .list [.atom "print", .list items, r, c] => do
      pure (.print (← items.mapM item?) (← pos? r c))
  | .list [.atom "data", .list items, r, c] => do
      let its ← items.mapM fun it => match it with
        | .list [v, ir, ic] => do pure ((← val? v), (← pos? ir ic))
        | _ => none
      pure (.data its (← pos? r c))
  | .list [.atom "read", .list tgs, r, c] => do pure (.read (← tgs.mapM readTarget?) (← pos? r c))
  | .list [.atom "if", cnd, thn, .list elifs, els, r, c] => do
      let (he, eb) ← optBlock? els
      pure (.ifBlock (← expr? cnd) (← sblock? thn) (← elifs? elifs) he eb (← pos? r c))
  | .list [.atom "select", e, .list cs, els, r, c] => do
      let (he, eb) ← optBlock? els
      pure (.select (← expr? e) (← scases? cs) he eb (← pos? r c))
  | .list [.atom "for", x, t, lo, hi, st, body, r, c] => do
      let step ← match st with
        | .atom "none" => pure none
        | s => do pure (some (← expr? s))
      pure (.forLoop (← x.nat?) (← ty? t) (← expr? lo) (← expr? hi) step (← sblock? body) (← pos? r c))
  | .list [.atom "while", cnd, body, r, c] => do
      pure (.while (← expr? cnd) (← sblock? body) (← pos? r c))
  | .list [.atom "do", cnd, top, unt, body, r, c] => do
      pure (.doLoop (← expr? cnd) (← top.bool?) (← unt.bool?) (← sblock? body) (← pos? r c))
  | .list [.atom "end", r, c] => do pure (.end_ (← pos? r c))
  | _ => none
partial def sblock? : Sexp → Option SStmt
  | .list [] => some .skip
  | .list (s :: rest) => do pure (.seq (← sstmt? s) (← sblock? (.list rest)))
  | _ => none
partial def optBlock? : Sexp → Option (Bool × SStmt)
  | .atom "none" => some (false, .skip)
  | b => do pure (true, ← sblock? b)
partial def elifs? : List Sexp → Option ElseIfs
  | [] => some .nil
  | .list [c, body] :: rest => do pure (.cons (← expr? c) (← sblock? body) (← elifs? rest))
  | _ => none
partial def scases? : List Sexp → Option SCases
  | [] => some .nil
  | .list [.list conds, body] :: rest => do
      pure (.cons (← conds.mapM caseExpr?) (← sblock? body) (← scases? rest))
  | _ => none
end

/-- `(rprogram (<fields of type 0> …) (<slot ety>…) (<stmt>…))`, a field list = `((<name> <fty>) …)` -/
def sprogram? : Sexp → Option SProgram
  | .list [.atom "rprogram", .list types, .list slots, body] => do
      let ts ← types.mapM fun t => match t with
        | .list fs => ffields? fs
        | _ => none
      pure ⟨ts, ← slots.mapM ety?, ← sblock? body⟩
  | _ => none

end RbModel.RecL
