import RbModel.RecL.Syntax
import RbModel.RecL.Ref
import RbModel.Arr
import Gen.NumTables
/-!
# RbModel.RecL.WfB — the executable premise checker of `RecL.compile_correct` (property C04, records layer)

`progWfB prog` is the decidable form of the static premise `RbThm.RecLSim.ProgWf` of the simulation theorem for the records
layer (`Thm/RecLSim.lean`); `Thm/RecLWf.lean` proves `progWfB prog = true → ProgWf prog`.  This file has no theorem
imports: the driver evaluates `progWfB` on every program the harness explores (request `recl.wf`), so the evidence says on
how many of them the theorem applies.

What it checks:
* the type table (`typesWfB` = `Spec.TypesWf`): the field names of one type are pairwise distinct and are their own
  case-folded keys; a nested record type is an EARLIER type and its inline expansion is that type's entry;
* expressions (`eWfB` = `Spec.ExprTyped`): a variable / field path leads to a declared location whose type is the one the
  node carries; a unary operator sees a built-in type; a binary operator sees scalars (`STRING * n` counts as a string) and
  carries the type of the checker's table (`/` excepted: it is followed by a `Cast`); string literals hold no NUL;
* statements: a `DIM` names the slot's declared type, which the table can expand; an assignment goes to a declared location
  of the type the statement carries (no condition on the static type of the right-hand side is needed); READ targets
  and FOR counters are scalar variables at their declared type, a FOR counter is not a string; conditions of IF / WHILE / DO
  are numbers; `CASE IS` uses a relational operator, a CASE has at least one item; a missing ELSE part is empty; DATA only
  at the top level, and no DATA item holds a NUL.
-/
namespace RbModel.RecL
open RbModel RbModel.Num
open RbModel.Ast (Pos)

/-! ### the type table -/

mutual
def FTy.beq : FTy → FTy → Bool
  | .sc a, .sc b => decide (a = b)
  | .fix a, .fix b => decide (a = b)
  | .udt j fs, .udt k gs => decide (j = k) && FFields.beq fs gs
  | _, _ => false
def FFields.beq : FFields → FFields → Bool
  | .nil, .nil => true
  | .cons f t rest, .cons g u more => decide (f = g) && FTy.beq t u && FFields.beq rest more
  | _, _ => false
end

def nodupB : List String → Bool
  | [] => true
  | a :: rest => !rest.contains a && nodupB rest

def foldedB (f : String) : Bool := decide (Arr.foldName f.toList = f.toList)

/-- every nested record type of the fields is an earlier type of the table, expanded as the table has it -/
def fieldsNestB (types : List FFields) (k : Nat) : FFields → Bool
  | .nil => true
  | .cons _ t rest =>
    (match t with
     | .udt j inner =>
       decide (j < k) &&
         (match types[j]? with
          | some fs => FFields.beq fs inner
          | none => false)
     | _ => true) && fieldsNestB types k rest

def typeOkB (types : List FFields) (k : Nat) (fs : FFields) : Bool :=
  nodupB fs.names && fs.names.all foldedB && fieldsNestB types k fs

def typesFromB (types : List FFields) : Nat → List FFields → Bool
  | _, [] => true
  | k, fs :: rest => typeOkB types k fs && typesFromB types (k + 1) rest

def typesWfB (types : List FFields) : Bool := typesFromB types 0 types

/-! ### expressions -/

def noNulValB : Val → Bool
  | .str cs => !cs.contains (Char.ofNat 0)
  | _ => true

def pathTypedB (types : List FFields) (slots : List ETy) (x : Nat) (path : List String) (t : ETy) : Bool :=
  match slots[x]? with
  | some st =>
    match expand types st with
    | some root =>
      match root.at path with
      | some ft => decide (ft.flat = t)
      | none => false
    | none => false
  | none => false

def isScB : ETy → Bool
  | .sc _ => true
  | _ => false

def eWfB (types : List FFields) (slots : List ETy) : RecL.Expr → Bool
  | .lit v _ => noNulValB v
  | .var x path t _ => pathTypedB types slots x path t
  | .un _ e _ => eWfB types slots e && isScB e.ty
  | .bin op l r t _ =>
    eWfB types slots l && eWfB types slots r &&
      (match Ref.ETy.asTy l.ty, Ref.ETy.asTy r.ty with
       | some tl, some tr => decide (op = .divide) || decide (Gen.NumTables.binType op tl tr = some t)
       | _, _ => false)
  | .paren e _ => eWfB types slots e

def numTyB : ETy → Bool
  | .sc q => decide (q ≠ .str)
  | _ => false

def itemsWfB (types : List FFields) (slots : List ETy) : List PrintItem → Bool
  | [] => true
  | .expr e :: rest => eWfB types slots e && itemsWfB types slots rest
  | _ :: rest => itemsWfB types slots rest

def selRelOpB (op : Op) : Bool :=
  decide (op = .less) || decide (op = .lessOrEqual) || decide (op = .equal) || decide (op = .greaterOrEqual) ||
    decide (op = .greater) || decide (op = .notEqual)

def caseWfB (types : List FFields) (slots : List ETy) : CaseExpr → Bool
  | .simple e => eWfB types slots e
  | .is op e => selRelOpB op && eWfB types slots e
  | .range lo hi => eWfB types slots lo && eWfB types slots hi

def condsWfB (types : List FFields) (slots : List ETy) : List CaseExpr → Bool
  | [] => true
  | c :: rest => caseWfB types slots c && condsWfB types slots rest

def targetWfB (slots : List ETy) (tg : ReadTarget) : Bool := decide (slots[tg.x]? = some (.sc tg.t))

def isSkipB : SStmt → Bool
  | .skip => true
  | _ => false

/-! ### statements -/

mutual
def wfB (types : List FFields) (slots : List ETy) : SStmt → Bool
  | .skip => true
  | .comment => true
  | .seq a b => wfB types slots a && wfB types slots b
  | .dim x t _ => decide (slots[x]? = some t) && (expand types t).isSome
  | .assign x path t e _ => pathTypedB types slots x path t && eWfB types slots e
  | .print items _ => itemsWfB types slots items
  | .ifBlock c thn elifs hasElse els _ =>
    eWfB types slots c && numTyB c.ty && wfB types slots thn && wfElifsB types slots elifs && wfB types slots els &&
      (hasElse || isSkipB els)
  | .while c body _ => eWfB types slots c && numTyB c.ty && wfB types slots body
  | .doLoop c _ _ body _ => eWfB types slots c && numTyB c.ty && wfB types slots body
  | .end_ _ => true
  | .data _ _ => false
  | .read tgs _ => tgs.all (targetWfB slots)
  | .select e cases hasElse els _ =>
    eWfB types slots e && wfCasesB types slots cases && wfB types slots els && (hasElse || isSkipB els)
  | .forLoop x t lo hi step body _ =>
    decide (slots[x]? = some (.sc t)) && decide (t ≠ .str) && eWfB types slots lo && eWfB types slots hi &&
      (match step with | some se => eWfB types slots se | none => true) && wfB types slots body
def wfElifsB (types : List FFields) (slots : List ETy) : ElseIfs → Bool
  | .nil => true
  | .cons c body rest => eWfB types slots c && numTyB c.ty && wfB types slots body && wfElifsB types slots rest
def wfCasesB (types : List FFields) (slots : List ETy) : SCases → Bool
  | .nil => true
  | .cons conds body rest =>
    !conds.isEmpty && condsWfB types slots conds && wfB types slots body && wfCasesB types slots rest
end

def wfTopB (types : List FFields) (slots : List ETy) : SStmt → Bool
  | .seq a b => wfTopB types slots a && wfTopB types slots b
  | .data _ _ => true
  | st => wfB types slots st

/-- the premise of `RecL.compile_correct`, executable -/
def progWfB (prog : SProgram) : Bool :=
  typesWfB prog.types && wfTopB prog.types prog.slots prog.body && (dataOf prog.body).all noNulValB

end RbModel.RecL
