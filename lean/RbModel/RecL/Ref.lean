import RbModel.RecL.Syntax
import RbModel.Ref
/-!
# RbModel.RecL.Ref — big-step reference semantics with records and fixed-length strings (property C04, phase A)

The reference semantics of C01 (`RbModel.Ref`) extended with records and `STRING * n`; the SPECIFICATION side of the
tie: written from the language rules (the text of property C04), not from the generator or the VM.

A record value (`RV.udt`) is a FINITE MAP from field names to values, recursively (`RFs`: an association list in
declaration order, one entry per field); a scalar, also a fixed-length string, is `RV.sc`.

Rules (each checked against the real pipeline by `harness/src/bin/c04r.rs`):
* `DIM v AS T`: `v` becomes the fresh value of `T` (`fresh`): numeric fields zero, a `STRING * n` field / variable `n`
  spaces, a record field a fresh record — also when the statement runs again (a `DIM` inside a loop): the old contents
  are gone (as for scalars in C01);
* reading `v.f.g`: the value found by following the field names from the value of `v`;
* `target = e`: `e` is evaluated, then converted to the static type of the target (`conv`): to a numeric type as in C01
  (`storeCast`: round half away from zero, Overflow (6) at the position of `e`), to `STRING * n` by `padTrunc`: the first
  `n` characters, padded with spaces to exactly `n` characters (also from a `STRING * m` value with `m ≠ n`); to `STRING`
  unchanged; a record is copied as a whole (`a = b`, `a.f = b.g` of the same record type).  The store (`RV.setPath`)
  changes the addressed field and nothing else;
* a record / `STRING * n` variable that is used although its `DIM` did not run (a `DIM` inside a branch not taken):
  `illFormed` — outside the language (see the report: the real interpreter panics / reads an EMPTY string).

`padTrunc` does not look at the characters: a NUL inside the value is outside the modelled language (the real
`fix_length` cuts the string at the first NUL; no construct of the fragment produces one).
-/
namespace RbModel.RecL.Ref
open RbModel RbModel.Num RbModel.RecL
open RbModel.Ast (Pos)

abbrev codeOf := _root_.RbModel.Ref.codeOf
abbrev binStep := _root_.RbModel.Ref.binStep
abbrev printValue := _root_.RbModel.Ref.printValue
abbrev truthy := _root_.RbModel.Ref.truthy
def codeOutOfData : Nat := 4
def codeZeroStep : Nat := 258

/-! ### values -/

mutual
inductive RV where
  | sc (v : Val)
  | udt (fields : RFs)
/-- the fields of a record value: a finite map from names to values -/
inductive RFs where
  | nil
  | cons (name : String) (v : RV) (rest : RFs)
end

instance : Inhabited RV := ⟨.sc (.int 0)⟩

def RFs.find : RFs → String → Option RV
  | .nil, _ => none
  | .cons g v rest, f => if g = f then some v else rest.find f

/-- replace the value of an existing field; every other field is kept -/
def RFs.set : RFs → String → RV → Option RFs
  | .nil, _, _ => none
  | .cons g v rest, f, w => if g = f then some (.cons g w rest) else (rest.set f w).map (.cons g v)

def RFs.names : RFs → List String
  | .nil => []
  | .cons g _ rest => g :: rest.names

/-- the value at the end of a field path -/
def RV.getPath : RV → List String → Option RV
  | v, [] => some v
  | .udt fs, f :: rest =>
    match fs.find f with
    | some c => c.getPath rest
    | none => none
  | .sc _, _ :: _ => none

/-- the value with the location at the end of the field path replaced -/
def RV.setPath : RV → List String → RV → Option RV
  | _, [], w => some w
  | .udt fs, f :: rest, w =>
    match fs.find f with
    | some c =>
      match c.setPath rest w with
      | some c' => (fs.set f c').map .udt
      | none => none
    | none => none
  | .sc _, _ :: _, _ => none

/-- exactly `n` characters: the first `n` of `cs`, padded with spaces -/
def padTrunc (n : Nat) (cs : List Char) : List Char :=
  cs.take n ++ List.replicate (n - cs.length) ' '

mutual
/-- the fresh value of a type: zero / spaces / fresh fields -/
def fresh : FTy → RV
  | .sc t => .sc (zeroOf t)
  | .fix n => .sc (.str (List.replicate n ' '))
  | .udt _ fs => .udt (freshFs fs)
def freshFs : FFields → RFs
  | .nil => .nil
  | .cons f t rest => .cons f (fresh t) (freshFs rest)
end

/-! ### results -/

inductive ERes (α : Type) where
  | ok (v : α)
  | err (code : Nat) (p : Pos)
  | inexact
  /-- use of a record / fixed-length string whose `DIM` did not run, or a tree the linter would have rejected -/
  | illFormed
  deriving Inhabited

def ERes.bind {α β : Type} : ERes α → (α → ERes β) → ERes β
  | .ok v, f => f v
  | .err c p, _ => .err c p
  | .inexact, _ => .inexact
  | .illFormed, _ => .illFormed

def lift (p : Pos) : Res Val → ERes Val
  | .ok v => .ok v
  | .err e => .err (codeOf e) p
  | .inexact => .inexact

def asScalar : RV → ERes Val
  | .sc v => .ok v
  | .udt _ => .illFormed

/-- the built-in type a static type is used at by the operators: a `STRING * n` value is a string -/
def ETy.asTy : ETy → Option Ty
  | .sc t => some t
  | .fix _ => some .str
  | .udt _ => none

/-- the variable environment: `none` = a record / `STRING * n` variable whose `DIM` has not run -/
abbrev Env := List (Option RV)

def eval (env : Env) : Expr → ERes RV
  | .lit v _ => .ok (.sc v)
  | .var x path _ _ =>
    match env[x]? with
    | some (some rv) =>
      match rv.getPath path with
      | some v => .ok v
      | none => .illFormed
    | _ => .illFormed
  | .un .neg e p => (eval env e).bind fun v => (asScalar v).bind fun a => (lift p (negate a)).bind fun r => .ok (.sc r)
  | .un .not e p => (eval env e).bind fun v => (asScalar v).bind fun a => (lift p (unaryNot a)).bind fun r => .ok (.sc r)
  | .bin op l r t p =>
    (eval env l).bind fun a => (asScalar a).bind fun a =>
      (eval env r).bind fun b => (asScalar b).bind fun b => (lift p (binStep op t a b)).bind fun r => .ok (.sc r)
  | .paren e _ => eval env e

/-- a scalar-valued expression -/
def evalS (env : Env) (e : Expr) : ERes Val := (eval env e).bind asScalar

/-- conversion of a value of static type `st` to the static type `tt` of the location that receives it; errors at `p` -/
def conv (p : Pos) (st tt : ETy) (v : RV) : ERes RV :=
  if st = tt then .ok v
  else
    match tt, v with
    | .sc t, .sc a => (lift p (cast a t)).bind fun r => .ok (.sc r)
    | .fix n, .sc (.str cs) => .ok (.sc (.str (padTrunc n cs)))
    | .fix _, .sc _ => .err 13 p
    | _, _ => .illFormed

/-- evaluate and convert to the type of the location that receives the value -/
def evalTo (env : Env) (e : Expr) (target : ETy) : ERes RV :=
  (eval env e).bind fun v => conv e.pos e.ty target v

/-- evaluate and convert to a built-in type (FOR bounds) -/
def evalToS (env : Env) (e : Expr) (target : Ty) : ERes Val := (evalTo env e (.sc target)).bind asScalar

structure St where
  types : List FFields
  env : Env
  out : Print.WritePrinter
  data : List Val
  dataIdx : Nat

inductive Outcome where
  | normal
  | halted
  | error (code : Nat) (p : Pos)
  | inexact
  | outOfFuel
  /-- use of a record / fixed-length string whose `DIM` did not run: outside the language -/
  | illFormed
  deriving Inhabited

def St.set (s : St) (x : Nat) (v : Val) : St := { s with env := s.env.set x (some (.sc v)) }

def St.setRV (s : St) (x : Nat) (v : RV) : St := { s with env := s.env.set x (some v) }

/-- the current value of scalar variable `x` of type `t` -/
def St.getS (s : St) (x : Nat) (t : Ty) : Val :=
  match s.env[x]? with
  | some (some (.sc v)) => v
  | _ => zeroOf t

def outcomeOf {α : Type} : ERes α → Outcome
  | .ok _ => .normal
  | .err c p => .error c p
  | .inexact => .inexact
  | .illFormed => .illFormed

def endsInSeparator : List PrintItem → Bool
  | [] => false
  | [.comma] => true
  | [.semicolon] => true
  | [_] => false
  | _ :: rest => endsInSeparator rest

def printItems (s : St) : List PrintItem → St × Outcome
  | [] => (s, .normal)
  | .comma :: rest => printItems { s with out := s.out.moveToNextPrintZone } rest
  | .semicolon :: rest => printItems s rest
  | .expr e :: rest =>
    match evalS s.env e with
    | .ok v =>
      match printValue v with
      | none => (s, .inexact)
      | some pv => printItems { s with out := s.out.print (Print.valueText pv) } rest
    | r => (s, outcomeOf r)

def evalCond (s : St) (c : Expr) : Except Outcome Bool :=
  match evalS s.env c with
  | .ok v =>
    match truthy v with
    | some b => .ok b
    | none => .error (.error 13 c.pos)
  | r => .error (outcomeOf r)

def relTest (p : Pos) (op : Op) (a b : Val) : Except Outcome Bool :=
  match tryCmp a b with
  | .ok o => .ok (relHolds op o)
  | .err e => .error (.error (codeOf e) p)
  | .inexact => .error .inexact

def evalE (s : St) (e : Expr) : Except Outcome Val :=
  match evalS s.env e with
  | .ok v => .ok v
  | r => .error (outcomeOf r)

def caseMatches (s : St) (p : Pos) (subject : Val) : CaseExpr → Except Outcome Bool
  | .simple e =>
    match evalE s e with
    | .error o => .error o
    | .ok v => relTest p .equal subject v
  | .is op e =>
    match evalE s e with
    | .error o => .error o
    | .ok v => relTest p op subject v
  | .range lo hi =>
    match evalE s lo with
    | .error o => .error o
    | .ok l =>
      match relTest p .greaterOrEqual subject l with
      | .error o => .error o
      | .ok false => .ok false
      | .ok true =>
        match evalE s hi with
        | .error o => .error o
        | .ok h => relTest p .lessOrEqual subject h

def anyMatches (s : St) (p : Pos) (subject : Val) : List CaseExpr → Except Outcome Bool
  | [] => .ok false
  | c :: rest =>
    match caseMatches s p subject c with
    | .error o => .error o
    | .ok true => .ok true
    | .ok false => anyMatches s p subject rest

inductive StepSign where
  | neg | pos | zero

def stepSign (p : Pos) (s : Val) : Except Outcome StepSign :=
  match relTest p .less s (.int 0) with
  | .error o => .error o
  | .ok true => .ok .neg
  | .ok false =>
    match relTest p .greater s (.int 0) with
    | .error o => .error o
    | .ok true => .ok .pos
    | .ok false => .ok .zero

/-- one DATA item converted to the target's type; errors at the READ statement's position -/
def readItem (s : St) (t : Ty) (p : Pos) : Except Outcome Val :=
  match s.data[s.dataIdx]? with
  | none => .error (.error codeOutOfData p)
  | some v =>
    match cast v t with
    | .ok w => .ok w
    | .err e => .error (.error (codeOf e) p)
    | .inexact => .error .inexact

mutual
/-- `exec fuel stmt state`: the state after the statement (output included) and how it ended -/
def exec : Nat → Stmt → St → St × Outcome
  | 0, _, s => (s, .outOfFuel)
  | _ + 1, .skip, s => (s, .normal)
  | fuel + 1, .seq a b, s =>
    match exec fuel a s with
    | (s', .normal) => exec fuel b s'
    | r => r
  | _ + 1, .dim x t _, s =>
    match expand s.types t with
    | some ft => (s.setRV x (fresh ft), .normal)
    | none => (s, .illFormed)
  | _ + 1, .assign x path t e _, s =>
    -- right-hand side first (converted), then the store: that location and nothing else
    match evalTo s.env e t with
    | .ok v =>
      match path, s.env[x]? with
      | [], some _ => (s.setRV x v, .normal)
      | _ :: _, some (some old) =>
        match old.setPath path v with
        | some new => (s.setRV x new, .normal)
        | none => (s, .illFormed)
      | _, _ => (s, .illFormed)
    | r => (s, outcomeOf r)
  | _ + 1, .print items _, s =>
    match printItems s items with
    | (s', .normal) =>
      if endsInSeparator items then (s', .normal) else ({ s' with out := s'.out.println }, .normal)
    | r => r
  | _ + 1, .read tg p, s =>
    match readItem s tg.t p with
    | .ok w => ({ s.set tg.x w with dataIdx := s.dataIdx + 1 }, .normal)
    | .error o => (s, o)
  | fuel + 1, .ifs c thn els _, s =>
    match evalCond s c with
    | .error o => (s, o)
    | .ok true => exec fuel thn s
    | .ok false => exec fuel els s
  | fuel + 1, .select e cases p, s =>
    match evalE s e with
    | .error o => (s, o)
    | .ok subject => execCases fuel p subject cases s
  | fuel + 1, .forLoop x t lo hi step body p, s =>
    match evalToS s.env lo t with
    | .ok l =>
      let s := s.set x l
      match evalToS s.env hi t with
      | .ok h =>
        match step with
        | none => forIter fuel x t h (.int 1) true body p s
        | some se =>
          match evalE s se with
          | .error o => (s, o)
          | .ok sv =>
            match stepSign p sv with
            | .error o => (s, o)
            | .ok .neg => forIter fuel x t h sv false body p s
            | .ok .pos => forIter fuel x t h sv true body p s
            | .ok .zero => (s, .error codeZeroStep se.pos)
      | r => (s, outcomeOf r)
    | r => (s, outcomeOf r)
  | fuel + 1, .while c body p, s =>
    match evalCond s c with
    | .error o => (s, o)
    | .ok false => (s, .normal)
    | .ok true =>
      match exec fuel body s with
      | (s', .normal) => exec fuel (.while c body p) s'
      | r => r
  | fuel + 1, .doLoop c top until_ body p, s =>
    if top then
      match evalCond s c with
      | .error o => (s, o)
      | .ok b =>
        if b != until_ then
          match exec fuel body s with
          | (s', .normal) => exec fuel (.doLoop c top until_ body p) s'
          | r => r
        else (s, .normal)
    else
      match exec fuel body s with
      | (s', .normal) =>
        match evalCond s' c with
        | .error o => (s', o)
        | .ok b => if b != until_ then exec fuel (.doLoop c top until_ body p) s' else (s', .normal)
      | r => r
  | _ + 1, .end_ _, s => (s, .halted)
def execCases : Nat → Pos → Val → Cases → St → St × Outcome
  | 0, _, _, _, s => (s, .outOfFuel)
  | _ + 1, _, _, .nil, s => (s, .normal)
  | fuel + 1, _, _, .else_ body, s => exec fuel body s
  | fuel + 1, p, subject, .case conds body rest, s =>
    match anyMatches s p subject conds with
    | .error o => (s, o)
    | .ok true => exec fuel body s
    | .ok false => execCases fuel p subject rest s
def forIter : Nat → Nat → Ty → Val → Val → Bool → Stmt → Pos → St → St × Outcome
  | 0, _, _, _, _, _, _, _, s => (s, .outOfFuel)
  | fuel + 1, x, t, h, sv, up, body, p, s =>
    let cur := s.getS x t
    match relTest p (if up then .lessOrEqual else .greaterOrEqual) cur h with
    | .error o => (s, o)
    | .ok false => (s, .normal)
    | .ok true =>
      match exec fuel body s with
      | (s', .normal) =>
        let cur' := s'.getS x t
        match (plus cur' sv).bind (fun v => cast v t) with
        | .ok v => forIter fuel x t h sv up body p (s'.set x v)
        | .err e => (s', .error (codeOf e) p)
        | .inexact => (s', .inexact)
      | r => r
end

/-- before any `DIM` has run: a scalar variable is zero / empty (the linter's implicit `DIM`s make that true of the real
run), a record / `STRING * n` variable does not exist yet -/
def initVar : ETy → Option RV
  | .sc t => some (.sc (zeroOf t))
  | _ => none

def St.init (P : Program) : St :=
  { types := P.types, env := P.slots.map initVar, out := Print.WritePrinter.new, data := P.data, dataIdx := 0 }

/-- run a whole program -/
def run (fuel : Nat) (P : Program) : St × Outcome := exec fuel P.body (St.init P)

end RbModel.RecL.Ref
