/-!
The register-frame discipline of FOR loops (`rusty_basic/src/interpreter/handlers/registers.rs`,
`instruction_generator/loops.rs`, `statement.rs`).

`register_stack` is a stack of frames.  A FOR statement at loop depth `d` writes its limit and step
into the top frame (registers C, D), tests the counter against them, and runs its body one frame
higher: `PushRegisters` (a fresh frame) before the body, `PopRegisters` after it.  Everything else
reads and writes the TOP frame only.  A `GOTO` from loop depth `d` to a label at loop depth `d' ≤ d`
is emitted as `d - d'` `PopRegisters` followed by the jump (`statement.rs`, `label_for_depths`);
`EXIT SUB / FUNCTION` as `d` of them followed by `PopRet`.
-/
namespace RbModel.Frames

/-- one `Registers` value (A, B scratch; C = FOR limit, D = FOR step), contents abstract -/
structure Frame where
  a : Int
  b : Int
  c : Int
  d : Int
  deriving DecidableEq, Repr, Inhabited

/-- `Registers::new()` -/
def Frame.fresh : Frame := ⟨0, 0, 0, 0⟩

/-- what an instruction does to `register_stack` (bottom first, the top is the last element) -/
inductive Op where
  /-- `PushRegisters`: `register_stack.push(Registers::new())` -/
  | push
  /-- `PopRegisters`: `register_stack.pop()` (nothing happens on an empty stack) -/
  | pop
  /-- any other instruction: `registers_mut()` = the top frame only -/
  | write (f : Frame → Frame)

def apply (st : List Frame) : Op → List Frame
  | .push => st ++ [Frame.fresh]
  | .pop => st.dropLast
  | .write f => match st.getLast? with
    | some top => st.dropLast ++ [f top]
    | none => st

def applyOps (st : List Frame) (ops : List Op) : List Frame := ops.foldl apply st

/-- the transfers the generator emits, seen from loop depth `d` -/
inductive Edge where
  /-- a statement (or part of one) that stays at its depth: writes the top frame -/
  | stmt (f : Frame → Frame)
  /-- entering a FOR body -/
  | enter
  /-- the end of a FOR body (before the increment and the back-edge) -/
  | leave
  /-- `GOTO` to a label at loop depth `d'` (also `EXIT SUB / FUNCTION` with `d' = 0`) -/
  | goto (d' : Nat)

/-- the instructions emitted for the edge at depth `d` -/
def Edge.ops (d : Nat) : Edge → List Op
  | .stmt f => [.write f]
  | .enter => [.push]
  | .leave => [.pop]
  | .goto d' => List.replicate (d - d') .pop

/-- the loop depth after the edge; `none`: not something the generator handles (leaving a body that
was never entered, jumping INTO a deeper loop) -/
def Edge.target (d : Nat) : Edge → Option Nat
  | .stmt _ => some d
  | .enter => some (d + 1)
  | .leave => if 1 ≤ d then some (d - 1) else none
  | .goto d' => if d' ≤ d then some d' else none

/-- runs a path of edges from depth `d`; returns the final depth, the final stack and the least
depth visited -/
def runPath : Nat → List Frame → List Edge → Option (Nat × List Frame × Nat)
  | d, st, [] => some (d, st, d)
  | d, st, e :: rest =>
    match e.target d with
    | none => none
    | some d1 =>
      match runPath d1 (applyOps st (e.ops d)) rest with
      | none => none
      | some (d', st', m) => some (d', st', min d m)

/-- what an executed instruction does to `register_stack`, `return_marks` and `go_sub_marks` -/
inductive MOp where
  | op (o : Op)
  /-- `PushRet`: the heights of the register stack and of the GOSUB stack are recorded -/
  | call
  /-- `PopRet`: back to the heights recorded at the call (`register_stack.truncate`,
  `go_sub_marks.truncate`) -/
  | ret
  /-- RESUME label (with an error recorded): back to the heights at the OUTERMOST call in progress,
  then (1a4d83d) down to the frames of the FOR loops that enclose the label: `fd` is the label's FOR
  depth as the generator passes it in `label_depths` (`none`: no entry for the target address),
  counted from the height recorded by the innermost GOSUB still pending (26672d3: a routine runs on
  top of the frames of the code that issued the GOSUB), from 1 when none is pending -/
  | leave (fd : Option Nat)
  /-- an instruction fails and the error is handed to the ON ERROR GOTO handler: the height is
  recorded (`last_error_marks`, dee4bd6) and the handler gets a frame of its own (df9ea58) -/
  | raise
  /-- RESUME / RESUME NEXT (with an error recorded): back to the height recorded at the dispatch -/
  | resume
  /-- `GoSub` (8f09b9b): the height of the register stack is recorded -/
  | gosub
  /-- `Return` with a GOSUB pending: back to the height recorded by that GOSUB -/
  | gret

/-- the machine: the stack (bottom first), the heights recorded by the calls in progress
(register stack, GOSUB stack; innermost call first) and by the pending GOSUBs (most recent first) -/
structure MSt where
  st : List Frame
  marks : List (Nat × Nat)
  gos : List Nat
  /-- the height recorded when the most recent error was handed to a handler -/
  errH : Nat
  deriving DecidableEq, Repr

/-- `Vec::truncate(n)` on a stack kept most-recent-first: the oldest `n` entries remain -/
def keepOldest (n : Nat) (l : List Nat) : List Nat := l.drop (l.length - n)

/-- the height a label's FOR depth is counted from: the one recorded by the innermost pending GOSUB -/
def gosubBase : List Nat → Nat
  | h :: _ => h
  | [] => 1

def stepM (s : MSt) : MOp → MSt
  | .op o => { s with st := apply s.st o }
  | .call => { s with marks := (s.st.length, s.gos.length) :: s.marks }
  | .ret => match s.marks with
    | (m, g) :: rest => { s with st := s.st.take m, marks := rest, gos := keepOldest g s.gos }
    | [] => s
  | .leave fd =>
    let s1 : MSt := match s.marks.getLast? with
      | some (m, g) => { s with st := s.st.take m, marks := [], gos := keepOldest g s.gos }
      | none => { s with marks := [] }
    match fd with
    | some d => { s1 with st := s1.st.take (gosubBase s1.gos + d) }
    | none => s1
  | .raise => { s with st := s.st ++ [Frame.fresh], errH := s.st.length }
  | .resume => { s with st := s.st.take s.errH }
  | .gosub => { s with gos := s.st.length :: s.gos }
  | .gret => match s.gos with
    | h :: rest => { s with st := s.st.take h, gos := rest }
    | [] => s

def runM (s : MSt) (ops : List MOp) : MSt := ops.foldl stepM s

/-- the interpreter's initial state: `[Registers::new()]`, no call in progress, no GOSUB pending -/
def MSt.init : MSt := ⟨[Frame.fresh], [], [], 0⟩

/-- heights of the stack before each of a sequence of executed instructions -/
def depths : MSt → List MOp → List Nat
  | _, [] => []
  | s, o :: rest => s.st.length :: depths (stepM s o) rest

/-- the machine's state before each of a sequence of executed instructions: beside the height of the
stack (`depths`) the recorded heights, which the hook exposes since the commit `verif hook: … marks`
(`Snapshot.return_marks` ↔ `marks`, components 0 and 1; `Snapshot.go_sub_marks` ↔ `gos`, component 0;
`Snapshot.error_marks` ↔ `errH`, component 0) -/
def states : MSt → List MOp → List MSt
  | _, [] => []
  | s, o :: rest => s :: states (stepM s o) rest

end RbModel.Frames
