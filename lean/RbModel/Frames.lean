/-!
The register-frame discipline of FOR loops (`rusty_basic/src/interpreter/handlers/registers.rs`,
`instruction_generator/loops.rs`, `statement.rs`).

`register_stack` is a stack of frames.  A FOR statement at loop depth `d` writes its limit and step
into the top frame (registers C, D), tests the counter against them, and runs its body one frame
higher: `PushRegisters` (a fresh frame) before the body, `PopRegisters` after it.  Everything else
reads and writes the TOP frame only.  A `GOTO` from loop depth `d` to a label at loop depth `d' ≤ d`
is emitted as `d - d'` `PopRegisters` followed by the jump (`statement.rs`, `label_for_depths`);
`EXIT SUB / FUNCTION` as `d` of them followed by `PopRet`.
-/
namespace RbModel.Frames

/-- one `Registers` value (A, B scratch; C = FOR limit, D = FOR step), contents abstract -/
structure Frame where
  a : Int
  b : Int
  c : Int
  d : Int
  deriving DecidableEq, Repr, Inhabited

/-- `Registers::new()` -/
def Frame.fresh : Frame := ⟨0, 0, 0, 0⟩

/-- what an instruction does to `register_stack` (bottom first, the top is the last element) -/
inductive Op where
  /-- `PushRegisters`: `register_stack.push(Registers::new())` -/
  | push
  /-- `PopRegisters`: `register_stack.pop()` (nothing happens on an empty stack) -/
  | pop
  /-- any other instruction: `registers_mut()` = the top frame only -/
  | write (f : Frame → Frame)

def apply (st : List Frame) : Op → List Frame
  | .push => st ++ [Frame.fresh]
  | .pop => st.dropLast
  | .write f => match st.getLast? with
    | some top => st.dropLast ++ [f top]
    | none => st

def applyOps (st : List Frame) (ops : List Op) : List Frame := ops.foldl apply st

/-- the transfers the generator emits, seen from loop depth `d` -/
inductive Edge where
  /-- a statement (or part of one) that stays at its depth: writes the top frame -/
  | stmt (f : Frame → Frame)
  /-- entering a FOR body -/
  | enter
  /-- the end of a FOR body (before the increment and the back-edge) -/
  | leave
  /-- `GOTO` to a label at loop depth `d'` (also `EXIT SUB / FUNCTION` with `d' = 0`) -/
  | goto (d' : Nat)

/-- the instructions emitted for the edge at depth `d` -/
def Edge.ops (d : Nat) : Edge → List Op
  | .stmt f => [.write f]
  | .enter => [.push]
  | .leave => [.pop]
  | .goto d' => List.replicate (d - d') .pop

/-- the loop depth after the edge; `none`: not something the generator handles (leaving a body that
was never entered, jumping INTO a deeper loop) -/
def Edge.target (d : Nat) : Edge → Option Nat
  | .stmt _ => some d
  | .enter => some (d + 1)
  | .leave => if 1 ≤ d then some (d - 1) else none
  | .goto d' => if d' ≤ d then some d' else none

/-- runs a path of edges from depth `d`; returns the final depth, the final stack and the least
depth visited -/
def runPath : Nat → List Frame → List Edge → Option (Nat × List Frame × Nat)
  | d, st, [] => some (d, st, d)
  | d, st, e :: rest =>
    match e.target d with
    | none => none
    | some d1 =>
      match runPath d1 (applyOps st (e.ops d)) rest with
      | none => none
      | some (d', st', m) => some (d', st', min d m)

/-- what an executed instruction does to `register_stack` and `return_marks` -/
inductive MOp where
  | op (o : Op)
  /-- `PushRet`: the height is recorded -/
  | call
  /-- `PopRet`: back to the height recorded at the call (`register_stack.truncate`) -/
  | ret
  /-- RESUME label (with an error recorded): back to the height at the OUTERMOST call in progress -/
  | leave

/-- the stack (bottom first) and the recorded heights (innermost call first) -/
def stepM (s : List Frame × List Nat) : MOp → List Frame × List Nat
  | .op o => (apply s.1 o, s.2)
  | .call => (s.1, s.1.length :: s.2)
  | .ret => match s.2 with
    | m :: rest => (s.1.take m, rest)
    | [] => (s.1, [])
  | .leave => match s.2.getLast? with
    | some m => (s.1.take m, [])
    | none => (s.1, [])

/-- heights of the stack before each of a sequence of executed instructions, starting from the
interpreter's initial stack `[Registers::new()]` with no call in progress -/
def depths : List Frame × List Nat → List MOp → List Nat
  | _, [] => []
  | s, o :: rest => s.1.length :: depths (stepM s o) rest

end RbModel.Frames
