import RbModel.Pc
/-!
# `RbModel.PcCtx` — the context data flow of `rusty_pc`

`Parser<I, C>` carries a *context* of type `C`: `set_context(&ctx)` stores it in the leaves that read it
(`ctx.rs CtxParser`, `iif_ctx.rs IifCtxParser`) and the combinators propagate it to their sub-parsers.  The real
mechanism is stateful (the leaves remember the last context they were given).  Because every reader is always
*re*-set by the nearest enclosing setter before it parses (`then_with_in_context` sets its right side from the left
side's value before parsing it, `many_ctx` sets its body before every round, `no_context` / `many_ctx` /
the right side of `then_with_in_context` do not let an outer context in), the data flow is an environment:
`runC c env` evaluates `c` with `env = some v` when the readers below hold `v`, `none` when they were never set.

Two ways to panic are part of the code and of the model:
* reading a context that was never set (`CtxParser::parse`: "context was not set", `IifCtxParser::parse`:
  "context is not initialized");
* propagating a context into a `seqN` (`seq.rs`: `fn set_context` is `unimplemented!()`) — `setPanics`.

All contexts are of the harness's value type; `iif` is `IifCtxParser::new(l, r).map_ctx(|v| *v == Sym(0))`.
-/
namespace RbModel.PcCtx
open RbModel.Pc

inductive CRes where
  | res (r : Res)
  | panic
  deriving DecidableEq, Repr, Inhabited

/-- context projections for `map_ctx` -/
inductive CtxFn where
  | id | wrap | const0
  deriving DecidableEq, Repr

def CtxFn.app : CtxFn → Val → Val
  | .id, v => v
  | .wrap, v => .some v
  | .const0, _ => .sym 0

inductive CExpr where
  | lift (e : PExpr)                      -- `e.no_context::<V>()`: a context-free parser
  | ctx                                   -- `ctx_parser()`
  | iif (l r : PExpr)                     -- `IifCtxParser::new(l, r).map_ctx(|v| *v == Sym(0))`
  | mapCtx (f : CtxFn) (c : CExpr)        -- `c.map_ctx(f)`
  | noCtx (c : CExpr)                     -- `c.no_context::<V>()`
  | thenWith (cmb : Cmb) (l r : CExpr)    -- `l.then_with_in_context(r, cmb)`
  | manyCtx (allowNone : Bool) (c : CExpr) -- `ManyCtxParser::new(c, VecManyCombiner, |v| v.clone(), allowNone)`
  | and (cmb : Cmb) (l r : CExpr)         -- `l.and(r, cmb)`
  | or2 (a b : CExpr)                     -- `OrParser::new(vec![a, b])`
  | seq2 (a b : CExpr)                    -- `seq2(a, b, ..)`
  | map (f : MapFn) (c : CExpr)           -- `c.map(f)`
  deriving Repr

/-- does `set_context` on this parser reach a `seqN` (whose `set_context` is `unimplemented!()`)?
Mirrors the `set_context` methods: `no_context.rs`, `many_ctx.rs` stop the propagation,
`then_with.rs` propagates to its left side only, `map_ctx.rs` forwards, everything else forwards to all
sub-parsers. -/
def setPanics : CExpr → Bool
  | .lift _ | .ctx | .iif _ _ | .noCtx _ | .manyCtx _ _ => false
  | .mapCtx _ c | .map _ c => setPanics c
  | .thenWith _ l _ => setPanics l
  | .and _ l r | .or2 l r => setPanics l || setPanics r
  | .seq2 _ _ => true

/-- the loop of `many_ctx.rs ManyCtxParser::parse`: `ctxv` is the context the body holds (the previous value).
Fuel: the loop state is now (position, context); the bodies expressible here look at the context only through
`iif`'s test `== Sym(0)`, so a terminating run visits each (position, test bit) at most once: at most
`2 * (len + 1)` rounds.  `runC` gives `2 * len + 5`; this bound is argued and tested, not proved. -/
def manyCtxLoop (body : Option Val → Nat → CRes) : Nat → Nat → List Val → Val → CRes
  | 0, _, _, _ => .res .hang
  | fuel + 1, pos, acc, ctxv =>
    match body (some ctxv) pos with
    | .panic => .panic
    | .res (.ok v q) => manyCtxLoop body fuel q (acc ++ [v]) v
    | .res (.soft _ q) => .res (.ok (Val.ofList acc) q)
    | .res (.fatal e q) => .res (.fatal e q)
    | .res .hang => .res .hang

/-- The interpreter: `env` is the context the readers of this sub-tree hold. -/
def runC : CExpr → Option Val → List Nat → Nat → CRes
  | .lift e, _, inp, pos => .res (run e inp pos)
  | .ctx, env, _, pos =>
    match env with
    | some v => .res (.ok v pos)
    | none => .panic
  | .iif l r, env, inp, pos =>
    match env with
    | some v => .res (if v == .sym 0 then run l inp pos else run r inp pos)
    | none => .panic
  | .mapCtx f c, env, inp, pos => runC c (env.map f.app) inp pos
  | .noCtx c, _, inp, pos => runC c none inp pos
  | .thenWith cmb l r, env, inp, pos =>
    match runC l env inp pos with
    | .panic => .panic
    | .res (.ok a p1) =>
      if setPanics r then .panic
      else
        match runC r (some a) inp p1 with
        | .panic => .panic
        | .res (.ok b p2) => .res (.ok (cmb.app a b) p2)
        | .res (.soft e p2) => .res (.fatal e p2)
        | .res (.fatal e p2) => .res (.fatal e p2)
        | .res .hang => .res .hang
    | .res x => .res x
  | .manyCtx an c, _, inp, pos =>
    if setPanics c then .panic
    else
      match runC c (some .nil) inp pos with
      | .panic => .panic
      | .res (.ok v q) => manyCtxLoop (fun env p => runC c env inp p) (2 * inp.length + 5) q [v] v
      | .res (.soft e q) => if an then .res (.ok .nil q) else .res (.soft e q)
      | .res x => .res x
  | .and cmb l r, env, inp, pos =>
    match runC l env inp pos with
    | .panic => .panic
    | .res (.ok a p1) =>
      match runC r env inp p1 with
      | .panic => .panic
      | .res (.ok b p2) => .res (.ok (cmb.app a b) p2)
      | .res (.soft e _) => .res (.soft e pos)
      | .res x => .res x
    | .res x => .res x
  | .or2 a b, env, inp, pos =>
    match runC a env inp pos with
    | .res (.soft _ _) => runC b env inp pos
    | x => x
  | .seq2 a b, env, inp, pos =>
    match runC a env inp pos with
    | .panic => .panic
    | .res (.ok v q) =>
      match runC b env inp q with
      | .panic => .panic
      | .res (.ok w q2) => .res (.ok (Val.ofList [v, w]) q2)
      | .res (.soft e q2) => .res (.fatal e q2)
      | .res x => .res x
    | .res x => .res x
  | .map f c, env, inp, pos =>
    match runC c env inp pos with
    | .res (.ok v q) => .res (.ok (f.app v) q)
    | x => x

/-- What a caller observes: optionally `set_context(&v)` on the whole parser, then `parse`. -/
def runTop (c : CExpr) (top : Option Val) (inp : List Nat) (pos : Nat) : CRes :=
  if top.isSome && setPanics c then .panic else runC c top inp pos

end RbModel.PcCtx
