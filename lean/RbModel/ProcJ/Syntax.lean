import RbModel.Proc.Syntax
/-!
# RbModel.ProcJ.Syntax — procedures layer ∪ jump layer (property C03 / C05): SUB / FUNCTION + labels, GOTO, GOSUB, RETURN

The language of `RbModel.Proc.Syntax` (core language + user SUBs and FUNCTIONs with scalar parameters, STATIC, DIM SHARED)
extended with the four statements of the jump layer `RbModel.JmpL.Syntax`, in the main module AND inside procedure bodies,
as the linter hands them to the generator:

* `label L name p`  (`Statement::Label`), anywhere in any statement list, also inside blocks;
* `goto L p`        (`Statement::GoTo`);
* `gosub L p`       (`Statement::GoSub`);
* `ret p`           (`Statement::Return(None)`; `RETURN label` is outside the layer).

Labels: the linter (`post_linter/label_linter.rs`) demands that a label is defined once in the WHOLE program ("labels need
to be unique across all scopes") and that the target of a GOTO / GOSUB is a label of the scope (main module, SUB, FUNCTION)
the statement occurs in.  The serialiser `harness/src/procj_sx.rs` numbers the labels of the whole program (case-insensitive
name → index: main module first, then the procedures in placement order, each in program order); a label statement keeps its
name as written (the generator emits it in the `Label` instruction).

Expressions, argument lists, PRINT items, CASE items, variable references and procedure declarations are THOSE of
`RbModel.Proc` (imported, not copied); only the statement types are new (they gain four constructors).
Two syntaxes as everywhere: `SStmt` (faithful, what `ProcJ.Compile` reads) and `Stmt` (lean, what `ProcJ.Ref` runs), related by
`desugar`.
-/
namespace RbModel.ProcJ
open RbModel
open RbModel.Num hiding Expr
open RbModel.Ast (Pos ty? op? val? pos?)
open RbModel.Proc (Var SlotTabs Expr Args PrintItem CaseExpr ProcDecl zeroOf Sigs sigsOf)

/-! ### the lean syntax of the reference semantics -/

mutual
inductive Stmt where
  | skip
  | seq (a b : Stmt)
  | assign (x : Var) (t : Ty) (e : Expr) (p : Pos)
  | print (items : List PrintItem) (p : Pos)
  | read (x : Var) (t : Ty) (p : Pos)
  | ifs (c : Expr) (thn els : Stmt) (p : Pos)
  | select (e : Expr) (cases : Cases) (p : Pos)
  | forLoop (x : Var) (t : Ty) (lo hi : Expr) (step : Option Expr) (body : Stmt) (p : Pos)
  | while (c : Expr) (body : Stmt) (p : Pos)
  | doLoop (c : Expr) (top until_ : Bool) (body : Stmt) (p : Pos)
  | end_ (p : Pos)
  | callSub (f : Nat) (args : Args) (p : Pos)
  | exitProc (p : Pos)
  | label (L : Nat)
  | goto (L : Nat)
  | gosub (L : Nat)
  | ret (p : Pos)
inductive Cases where
  | nil
  | else_ (body : Stmt)
  | case (conds : List CaseExpr) (body : Stmt) (rest : Cases)
end

instance : Inhabited Stmt := ⟨.skip⟩

mutual
/-- the labels defined inside a statement, in program order -/
def Stmt.labels : Stmt → List Nat
  | .seq a b => a.labels ++ b.labels
  | .ifs _ thn els _ => thn.labels ++ els.labels
  | .select _ cases _ => cases.labels
  | .forLoop _ _ _ _ _ body _ => body.labels
  | .while _ body _ => body.labels
  | .doLoop _ _ _ body _ => body.labels
  | .label L => [L]
  | _ => []
def Cases.labels : Cases → List Nat
  | .nil => []
  | .else_ body => body.labels
  | .case _ body rest => body.labels ++ rest.labels
end

/-- `L` is a label defined inside the statement -/
def Stmt.hasLabel (s : Stmt) (L : Nat) : Bool := s.labels.contains L

def Cases.hasLabel (cs : Cases) (L : Nat) : Bool := cs.labels.contains L

/-! ### the faithful syntax of the generator -/

mutual
inductive SStmt where
  | skip
  | seq (a b : SStmt)
  | comment
  | dim (x : Var) (t : Ty) (p : Pos)
  /-- the guarded DIM of a STATIC procedure (`IsVariableDefined`), as in `Proc.SStmt` -/
  | sdim (x : Nat) (t : Ty) (p : Pos)
  | assign (x : Var) (t : Ty) (e : Expr) (p : Pos)
  | print (items : List PrintItem) (p : Pos)
  | data (items : List (Val × Pos)) (p : Pos)
  | read (vars : List (Var × Ty × Pos)) (p : Pos)
  | ifBlock (c : Expr) (thn : SStmt) (elifs : ElseIfs) (hasElse : Bool) (els : SStmt) (p : Pos)
  | select (e : Expr) (cases : SCases) (hasElse : Bool) (els : SStmt) (p : Pos)
  | forLoop (x : Var) (t : Ty) (lo hi : Expr) (step : Option Expr) (body : SStmt) (p : Pos)
  | while (c : Expr) (body : SStmt) (p : Pos)
  | doLoop (c : Expr) (top until_ : Bool) (body : SStmt) (p : Pos)
  | end_ (p : Pos)
  | callSub (f : Nat) (args : Args) (p : Pos)
  | exitProc (p : Pos)
  /-- `name`: the label as written at its definition (what the `Label` instruction carries) -/
  | label (L : Nat) (name : String) (p : Pos)
  | goto (L : Nat) (p : Pos)
  | gosub (L : Nat) (p : Pos)
  | ret (p : Pos)
inductive ElseIfs where
  | nil
  | cons (c : Expr) (body : SStmt) (rest : ElseIfs)
inductive SCases where
  | nil
  | cons (conds : List CaseExpr) (body : SStmt) (rest : SCases)
end

instance : Inhabited SStmt := ⟨.skip⟩

structure SProgram where
  slots : List Ty
  /-- types of the DIM SHARED variables -/
  gslots : List Ty
  body : SStmt
  procs : List (ProcDecl SStmt)

/-- what the reference semantics runs -/
structure Program where
  slots : List Ty
  gslots : List Ty
  data : List Val
  body : Stmt
  procs : List (ProcDecl Stmt)

/-! ### desugaring -/

def readSeq (p : Pos) : List (Var × Ty × Pos) → Stmt
  | [] => .skip
  | (x, t, _) :: rest => .seq (.read x t p) (readSeq p rest)

mutual
def desugar : SStmt → Stmt
  | .skip => .skip
  | .seq a b => .seq (desugar a) (desugar b)
  | .comment => .skip
  | .dim x t p => .assign x t (.lit (zeroOf t) p) p
  | .sdim _ _ _ => .skip
  | .assign x t e p => .assign x t e p
  | .print items p => .print items p
  | .data _ _ => .skip
  | .read vars p => readSeq p vars
  | .ifBlock c thn elifs _ els p => .ifs c (desugar thn) (desugarElifs elifs (desugar els) p) p
  | .select e cases hasElse els p =>
    .select e (desugarCases cases (if hasElse then .else_ (desugar els) else .nil)) p
  | .forLoop x t lo hi step body p => .forLoop x t lo hi step (desugar body) p
  | .while c body p => .while c (desugar body) p
  | .doLoop c top u body p => .doLoop c top u (desugar body) p
  | .end_ p => .end_ p
  | .callSub f args p => .callSub f args p
  | .exitProc p => .exitProc p
  | .label L _ _ => .label L
  | .goto L _ => .goto L
  | .gosub L _ => .gosub L
  | .ret p => .ret p
def desugarElifs : ElseIfs → Stmt → Pos → Stmt
  | .nil, els, _ => els
  | .cons c body rest, els, p => .ifs c (desugar body) (desugarElifs rest els p) p
def desugarCases : SCases → Cases → Cases
  | .nil, tail => tail
  | .cons conds body rest, tail => .case conds (desugar body) (desugarCases rest tail)
end

/-- DATA items in program order (only top-level statements of the main module carry DATA) -/
def dataOf : SStmt → List Val
  | .seq a b => dataOf a ++ dataOf b
  | .data items _ => items.map (·.1)
  | _ => []

def SProgram.toAst (sp : SProgram) : Program :=
  ⟨sp.slots, sp.gslots, dataOf sp.body, desugar sp.body,
   sp.procs.map fun d => { d with body := desugar d.body }⟩

/-! ### well-formedness of the call annotations (decidable; the driver checks it before comparing) -/

mutual
/-- `inProc`: EXIT SUB / EXIT FUNCTION only inside a procedure -/
def SStmt.wf (sg : Sigs) (inProc : Bool) : SStmt → Bool
  | .skip => true
  | .seq a b => a.wf sg inProc && b.wf sg inProc
  | .comment => true
  | .dim _ _ _ => true
  | .sdim _ _ _ => inProc
  | .assign _ _ e _ => e.wf sg
  | .print items _ => items.all (Proc.PrintItem.wf sg)
  | .data _ _ => !inProc
  | .read _ _ => true
  | .ifBlock c thn elifs _ els _ => c.wf sg && thn.wf sg inProc && elifs.wf sg inProc && els.wf sg inProc
  | .select e cases _ els _ => e.wf sg && cases.wf sg inProc && els.wf sg inProc
  | .forLoop _ _ lo hi step body _ =>
    lo.wf sg && hi.wf sg && (match step with | some s => s.wf sg | none => true) && body.wf sg inProc
  | .while c body _ => c.wf sg && body.wf sg inProc
  | .doLoop c _ _ body _ => c.wf sg && body.wf sg inProc
  | .end_ _ => true
  | .callSub f args _ =>
    (match sg[f]? with
     | some (none, ps) => ps == args.params
     | _ => false) && args.wf sg
  | .exitProc _ => inProc
  | .label _ _ _ => true
  | .goto _ _ => true
  | .gosub _ _ => true
  | .ret _ => true
def ElseIfs.wf (sg : Sigs) (inProc : Bool) : ElseIfs → Bool
  | .nil => true
  | .cons c body rest => c.wf sg && body.wf sg inProc && rest.wf sg inProc
def SCases.wf (sg : Sigs) (inProc : Bool) : SCases → Bool
  | .nil => true
  | .cons conds body rest => conds.all (Proc.CaseExpr.wf sg) && body.wf sg inProc && rest.wf sg inProc
end

def SProgram.wf (sp : SProgram) : Bool :=
  let sg := sigsOf sp.procs
  sp.body.wf sg false && sp.procs.all fun d => d.wfSlots && d.body.wf sg true

/-! ### reader of the serialised linted program (`harness/src/procj_sx.rs`) -/

open RbModel.Proc (var? expr? args? item? caseExpr? param?)

mutual
partial def sstmt? : Sexp → Option SStmt
  | .atom "comment" => some .comment
  | .list [.atom "dim", x, t, r, c] => do pure (.dim (← var? x) (← ty? t) (← pos? r c))
  | .list [.atom "sdim", x, t, r, c] => do pure (.sdim (← x.nat?) (← ty? t) (← pos? r c))
  | .list [.atom "assign", x, t, e, r, c] => do
      pure (.assign (← var? x) (← ty? t) (← expr? e) (← pos? r c))
  | .list [.atom "print", .list items, r, c] => do
      pure (.print (← items.mapM item?) (← pos? r c))
  | .list [.atom "data", .list items, r, c] => do
      let its ← items.mapM fun it => match it with
        | .list [v, ir, ic] => do pure ((← val? v), (← pos? ir ic))
        | _ => none
      pure (.data its (← pos? r c))
  | .list [.atom "read", .list vars, r, c] => do
      let vs ← vars.mapM fun v => match v with
        | .list [x, t, vr, vc] => do pure ((← var? x), (← ty? t), (← pos? vr vc))
        | _ => none
      pure (.read vs (← pos? r c))
  | .list [.atom "if", cnd, thn, .list elifs, els, r, c] => do
      let (he, eb) ← optBlock? els
      pure (.ifBlock (← expr? cnd) (← sblock? thn) (← elifs? elifs) he eb (← pos? r c))
  | .list [.atom "select", e, .list cs, els, r, c] => do
      let (he, eb) ← optBlock? els
      pure (.select (← expr? e) (← scases? cs) he eb (← pos? r c))
  | .list [.atom "for", x, t, lo, hi, st, body, r, c] => do
      let step ← match st with
        | .atom "none" => pure none
        | s => do pure (some (← expr? s))
      pure (.forLoop (← var? x) (← ty? t) (← expr? lo) (← expr? hi) step (← sblock? body) (← pos? r c))
  | .list [.atom "while", cnd, body, r, c] => do
      pure (.while (← expr? cnd) (← sblock? body) (← pos? r c))
  | .list [.atom "do", cnd, top, unt, body, r, c] => do
      pure (.doLoop (← expr? cnd) (← top.bool?) (← unt.bool?) (← sblock? body) (← pos? r c))
  | .list [.atom "end", r, c] => do pure (.end_ (← pos? r c))
  | .list [.atom "callsub", f, .list args, r, c] => do
      pure (.callSub (← f.nat?) (← args? args) (← pos? r c))
  | .list [.atom "exit", r, c] => do pure (.exitProc (← pos? r c))
  | .list [.atom "label", l, name, r, c] => do pure (.label (← l.nat?) (← Instr.str? name) (← pos? r c))
  | .list [.atom "goto", l, r, c] => do pure (.goto (← l.nat?) (← pos? r c))
  | .list [.atom "gosub", l, r, c] => do pure (.gosub (← l.nat?) (← pos? r c))
  | .list [.atom "return", r, c] => do pure (.ret (← pos? r c))
  | _ => none
partial def sblock? : Sexp → Option SStmt
  | .list [] => some .skip
  | .list (s :: rest) => do pure (.seq (← sstmt? s) (← sblock? (.list rest)))
  | _ => none
partial def optBlock? : Sexp → Option (Bool × SStmt)
  | .atom "none" => some (false, .skip)
  | b => do pure (true, ← sblock? b)
partial def elifs? : List Sexp → Option ElseIfs
  | [] => some .nil
  | .list [c, body] :: rest => do pure (.cons (← expr? c) (← sblock? body) (← elifs? rest))
  | _ => none
partial def scases? : List Sexp → Option SCases
  | [] => some .nil
  | .list [.list conds, body] :: rest => do
      pure (.cons (← conds.mapM caseExpr?) (← sblock? body) (← scases? rest))
  | _ => none
end

/-- `(proc <fn ty | sub> <static: t | f> <label name> ((<pname> <ty>)…) (<slot ty>…) (<stmt>…) <row> <col>)` -/
def proc? : Sexp → Option (ProcDecl SStmt)
  | .list [.atom "proc", kind, st, name, .list params, .list slots, body, r, c] => do
      let result ← match kind with
        | .atom "sub" => pure none
        | .list [.atom "fn", t] => do pure (some (← ty? t))
        | _ => none
      pure { result, name := ← Instr.str? name, params := ← params.mapM param?, slots := ← slots.mapM ty?,
             body := ← sblock? body, pos := ← pos? r c, static := ← st.bool? }
  | _ => none

/-- `(pjprogram (<main ty>…) (<shared ty>…) (<stmt>…) (<proc>…))` -/
def sprogram? : Sexp → Option SProgram
  | .list [.atom "pjprogram", .list slots, .list gslots, body, .list procs] => do
      pure ⟨← slots.mapM ty?, ← gslots.mapM ty?, ← sblock? body, ← procs.mapM proc?⟩
  | _ => none

end RbModel.ProcJ
