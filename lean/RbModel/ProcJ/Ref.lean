import RbModel.ProcJ.Syntax
import RbModel.Proc.Ref
/-!
# RbModel.ProcJ.Ref — reference semantics of the layer "procedures ∪ jumps" (the SPECIFICATION)

Big-step and fuelled; the union of `RbModel.Proc.Ref` (calls: arguments left to right converted to the parameter types, fresh
activation environment / one persistent environment per STATIC procedure, by-reference = copy-in / copy-out left to right,
DIM SHARED variables one store, FUNCTION result = final value of its name; expressions thread the state because they call
functions) and `RbModel.JmpL.Ref` (modes `run | seek L`; a `jump L` is handled by the innermost construct that contains the
label `L`; GOSUB = a nested run; no addresses, no stacks).  Written from the language rules, independent of the generator and
of the VM.  The state `St`, `writeBack`, `freshEnv`, `rebind`, `relTest`, `stepSign`, `liftR` are those of `Proc.Ref`.

What is new is how the two meet.  Every statement is executed *inside an activation*: `Act` = the text of the body the
activation is running (the main module's, or the procedure's) and whether it is a procedure.

* **Labels are per procedure.**  `gosub L` = a nested run of the body of the *current* activation in `seek L` mode.  Its
  outcome `ret _` → the GOSUB statement ends normally; `normal` (the text of the body ran out inside the routine): in the main
  module the program ends (`halted`), in a procedure END SUB / END FUNCTION was reached — the procedure returns (`exited`);
  `exited` (EXIT SUB / EXIT FUNCTION inside the routine) is passed on unchanged: leaving the procedure ends every pending GOSUB
  of the activation — the pending GOSUBs of an activation ARE the nested runs of its body, they end with it.
* **RETURN only answers a GOSUB of its own activation.**  `ret p` is passed on by every construct up to the innermost pending
  nested run of the *same* body.  A call runs the callee's body as an outermost run of that activation: a `ret p` that comes
  out of it found no GOSUB of the activation pending and is error 3 (RETURN without GOSUB) at `p` — whatever GOSUBs the callers
  have pending.  Likewise at the top of the main module.
* **A call inside a GOSUB routine of the caller** changes nothing for the caller: after the call the caller's nested runs are
  exactly as before (they are the Lean call stack of `exec`, which the callee cannot touch), so the caller's RETURN answers the
  caller's GOSUB and the caller's FOR loops go on with their own limit and step (`forIter` keeps them as parameters).
* A `jump L` never leaves its activation (`illFormed` if it comes out of a body: the premise excludes it: GOTO targets are
  labels of the same body).
-/
namespace RbModel.ProcJ.Ref
open RbModel RbModel.ProcJ
open RbModel.Num hiding Expr
open RbModel.Ast (Pos)
open RbModel.Proc (Var Expr Args PrintItem CaseExpr ProcDecl zeroOf)
open RbModel.Proc.Ref (St codeOf binStep printValue truthy codeOutOfData codeZeroStep liftR endsInSeparator StepSign
  freshEnv rebind writeBack)

def codeReturnWithoutGoSub : Nat := 3

inductive Outcome where
  | normal
  /-- EXIT SUB / EXIT FUNCTION, or END SUB / END FUNCTION reached inside a GOSUB routine: the activation ends -/
  | exited
  /-- END / SYSTEM: the whole run ends normally -/
  | halted
  | jump (L : Nat)
  | ret (p : Pos)
  | error (code : Nat) (p : Pos)
  | inexact
  | outOfFuel
  /-- outside the modelled language: a call of a procedure that does not exist, a jump to a label that is not in the body, a
  jump into a FOR body or a SELECT block, EXIT SUB in the main module -/
  | illFormed
  /-- internal to seeking: the label is not inside this statement -/
  | notHere
  deriving Inhabited, DecidableEq

inductive Mode where
  | run
  | seek (L : Nat)
  deriving Inhabited, DecidableEq

/-- does a statement get executed in this mode? -/
def Mode.enters (m : Mode) (s : Stmt) : Bool :=
  match m with
  | .run => true
  | .seek L => s.hasLabel L

/-- the text an activation is running -/
structure Act where
  /-- a procedure (else the main module) -/
  inProc : Bool
  body : Stmt

def relTest (p : Pos) (op : Op) (a b : Val) : Except Outcome Bool :=
  match tryCmp a b with
  | .ok o => .ok (relHolds op o)
  | .err e => .error (.error (codeOf e) p)
  | .inexact => .error .inexact

def stepSign (p : Pos) (s : Val) : Except Outcome StepSign :=
  match relTest p .less s (.int 0) with
  | .error o => .error o
  | .ok true => .ok .neg
  | .ok false =>
    match relTest p .greater s (.int 0) with
    | .error o => .error o
    | .ok true => .ok .pos
    | .ok false => .ok .zero

def liftV (s : St) (p : Pos) : Res Val → St × Except Outcome Val
  | .ok v => (s, .ok v)
  | .err e => (s, .error (.error (codeOf e) p))
  | .inexact => (s, .error .inexact)

/-- the callee's activation with the parameters bound, `s1` = the caller's state after the arguments -/
def enterCore (d : ProcDecl Stmt) (f : Nat) (vals : List Val) (s1 : St) : St :=
  if d.static then
    { s1 with self := some f, statics := fun g => if g = f then rebind (s1.statics f) vals else s1.statics g }
  else { s1 with self := none, env := freshEnv d.slots vals }

/-- the state in which the body of `d` (procedure `f`) starts (the result variable of a STATIC FUNCTION is reset) -/
def enter (d : ProcDecl Stmt) (f : Nat) (vals : List Val) (s1 : St) : St :=
  match d.static, d.result with
  | true, some rt => (enterCore d f vals s1).set ⟨false, d.resultSlot⟩ (zeroOf rt)
  | _, _ => enterCore d f vals s1

/-- does the body's outcome let the call return? -/
def returns : Outcome → Bool
  | .normal => true
  | .exited => true
  | _ => false

/-- what a call answers when the callee's body ended with an outcome that does not let it return: a RETURN that no GOSUB of
the activation answered is error 3; a jump cannot leave its body -/
def callFail : Outcome → Outcome
  | .ret p => .error codeReturnWithoutGoSub p
  | .jump _ => .illFormed
  | .notHere => .illFormed
  | o => o

/-- what a GOSUB statement answers when the nested run of the activation's body ended with `o` -/
def gosubEnd (inProc : Bool) : Outcome → Outcome
  | .ret _ => .normal
  | .normal => if inProc then .exited else .halted
  | .jump _ => .illFormed
  | .notHere => .illFormed
  | o => o

mutual
def eval (P : Program) : Nat → Expr → St → St × Except Outcome Val
  | 0, _, s => (s, .error .outOfFuel)
  | _ + 1, .lit v _, s => (s, .ok v)
  | _ + 1, .var x t _, s => (s, .ok (s.get x t))
  | fuel + 1, .un op e p, s =>
    match eval P fuel e s with
    | (s1, .ok v) => liftV s1 p (match op with | .neg => negate v | .not => unaryNot v)
    | r => r
  | fuel + 1, .bin op l r t p, s =>
    match eval P fuel l s with
    | (s1, .ok a) =>
      match eval P fuel r s1 with
      | (s2, .ok b) => liftV s2 p (binStep op t a b)
      | r => r
    | r => r
  | fuel + 1, .paren e _, s => eval P fuel e s
  | fuel + 1, .callFn f args _ _, s => call P fuel f args s
def evalTo (P : Program) : Nat → Expr → Ty → St → St × Except Outcome Val
  | 0, _, _, s => (s, .error .outOfFuel)
  | fuel + 1, e, target, s =>
    match eval P fuel e s with
    | (s1, .ok v) => liftV s1 e.pos (storeCast e.ty target v)
    | r => r
def evalArgs (P : Program) : Nat → Args → St → St × Except Outcome (List Val)
  | 0, _, s => (s, .error .outOfFuel)
  | _ + 1, .nil, s => (s, .ok [])
  | fuel + 1, .cons e _ pt rest, s =>
    match evalTo P fuel e pt s with
    | (s1, .error o) => (s1, .error o)
    | (s1, .ok v) =>
      match evalArgs P fuel rest s1 with
      | (s2, .error o) => (s2, .error o)
      | (s2, .ok vs) => (s2, .ok (v :: vs))
/-- a call of procedure `f`: the callee's body is an outermost run of a new activation -/
def call (P : Program) : Nat → Nat → Args → St → St × Except Outcome Val
  | 0, _, _, s => (s, .error .outOfFuel)
  | fuel + 1, f, args, s =>
    match P.procs[f]? with
    | none => (s, .error .illFormed)
    | some d =>
      match evalArgs P fuel args s with
      | (s1, .error o) => (s1, .error o)
      | (s1, .ok vals) =>
        match exec P fuel ⟨true, d.body⟩ d.body .run (enter d f vals s1) with
        | (s2, o) =>
          if returns o then
            let res := match d.result with
              | some rt => s2.locals.getD d.resultSlot (zeroOf rt)
              | none => .int 0
            (writeBack args 0 s2.locals { s2 with env := s1.env, self := s1.self }, .ok res)
          else (s2, .error (callFail o))
def printItems (P : Program) : Nat → List PrintItem → St → St × Outcome
  | 0, _, s => (s, .outOfFuel)
  | _ + 1, [], s => (s, .normal)
  | fuel + 1, .comma :: rest, s => printItems P fuel rest { s with out := s.out.moveToNextPrintZone }
  | fuel + 1, .semicolon :: rest, s => printItems P fuel rest s
  | fuel + 1, .expr e :: rest, s =>
    match eval P fuel e s with
    | (s1, .error o) => (s1, o)
    | (s1, .ok v) =>
      match printValue v with
      | none => (s1, .inexact)
      | some pv => printItems P fuel rest { s1 with out := s1.out.print (Print.valueText pv) }
def evalCond (P : Program) : Nat → Expr → St → St × Except Outcome Bool
  | 0, _, s => (s, .error .outOfFuel)
  | fuel + 1, c, s =>
    match eval P fuel c s with
    | (s1, .error o) => (s1, .error o)
    | (s1, .ok v) =>
      match truthy v with
      | some b => (s1, .ok b)
      | none => (s1, .error (.error 13 c.pos))
def caseMatches (P : Program) : Nat → Pos → Val → CaseExpr → St → St × Except Outcome Bool
  | 0, _, _, _, s => (s, .error .outOfFuel)
  | fuel + 1, p, subject, .simple e, s =>
    match eval P fuel e s with
    | (s1, .error o) => (s1, .error o)
    | (s1, .ok v) => (s1, relTest p .equal subject v)
  | fuel + 1, p, subject, .is op e, s =>
    match eval P fuel e s with
    | (s1, .error o) => (s1, .error o)
    | (s1, .ok v) => (s1, relTest p op subject v)
  | fuel + 1, p, subject, .range lo hi, s =>
    match eval P fuel lo s with
    | (s1, .error o) => (s1, .error o)
    | (s1, .ok l) =>
      match relTest p .greaterOrEqual subject l with
      | .error o => (s1, .error o)
      | .ok false => (s1, .ok false)
      | .ok true =>
        match eval P fuel hi s1 with
        | (s2, .error o) => (s2, .error o)
        | (s2, .ok h) => (s2, relTest p .lessOrEqual subject h)
def anyMatches (P : Program) : Nat → Pos → Val → List CaseExpr → St → St × Except Outcome Bool
  | 0, _, _, _, s => (s, .error .outOfFuel)
  | _ + 1, _, _, [], s => (s, .ok false)
  | fuel + 1, p, subject, c :: rest, s =>
    match caseMatches P fuel p subject c s with
    | (s1, .error o) => (s1, .error o)
    | (s1, .ok true) => (s1, .ok true)
    | (s1, .ok false) => anyMatches P fuel p subject rest s1
/-- `exec P fuel A stmt mode state`: the state after the statement and how it ended; `A` = the activation the statement
belongs to (what a GOSUB runs) -/
def exec (P : Program) : Nat → Act → Stmt → Mode → St → St × Outcome
  | 0, _, _, _, s => (s, .outOfFuel)
  | _ + 1, _, .skip, m, s =>
    match m with
    | .run => (s, .normal)
    | .seek _ => (s, .notHere)
  | fuel + 1, A, .seq a b, m, s =>
    if m.enters (.seq a b) then
      match (if m.enters a then
               match exec P fuel A a m s with
               | (s', .normal) => exec P fuel A b .run s'
               | r => r
             else exec P fuel A b m s) with
      | (s', .jump L) =>
        if (Stmt.seq a b).hasLabel L then exec P fuel A (.seq a b) (.seek L) s' else (s', .jump L)
      | r => r
    else (s, .notHere)
  | fuel + 1, _, .assign x t e _, m, s =>
    match m with
    | .seek _ => (s, .notHere)
    | .run =>
      match evalTo P fuel e t s with
      | (s1, .ok v) => (s1.set x v, .normal)
      | (s1, .error o) => (s1, o)
  | fuel + 1, _, .print items _, m, s =>
    match m with
    | .seek _ => (s, .notHere)
    | .run =>
      match printItems P fuel items s with
      | (s', .normal) =>
        if endsInSeparator items then (s', .normal) else ({ s' with out := s'.out.println }, .normal)
      | r => r
  | _ + 1, _, .read x t p, m, s =>
    match m with
    | .seek _ => (s, .notHere)
    | .run =>
      match s.data[s.dataIdx]? with
      | none => (s, .error codeOutOfData p)
      | some v =>
        match cast v t with
        | .ok w => ({ s.set x w with dataIdx := s.dataIdx + 1 }, .normal)
        | .err e => (s, .error (codeOf e) p)
        | .inexact => (s, .inexact)
  | fuel + 1, A, .ifs c thn els p, m, s =>
    if m.enters (.ifs c thn els p) then
      match (match m with
             | .run =>
               match evalCond P fuel c s with
               | (s1, .error o) => (s1, o)
               | (s1, .ok true) => exec P fuel A thn .run s1
               | (s1, .ok false) => exec P fuel A els .run s1
             | .seek L => if thn.hasLabel L then exec P fuel A thn (.seek L) s else exec P fuel A els (.seek L) s) with
      | (s', .jump L) =>
        if (Stmt.ifs c thn els p).hasLabel L then exec P fuel A (.ifs c thn els p) (.seek L) s' else (s', .jump L)
      | r => r
    else (s, .notHere)
  | fuel + 1, A, .select e cases p, m, s =>
    match m with
    | .seek L => if cases.hasLabel L then (s, .illFormed) else (s, .notHere)
    | .run =>
      match eval P fuel e s with
      | (s1, .error o) => (s1, o)
      | (s1, .ok subject) =>
        match execCases P fuel A p subject cases s1 with
        | (s', .jump L) => if cases.hasLabel L then selectSeek P fuel A cases L s' else (s', .jump L)
        | r => r
  | fuel + 1, A, .forLoop x t lo hi step body p, m, s =>
    match m with
    | .seek L => if body.hasLabel L then (s, .illFormed) else (s, .notHere)
    | .run =>
      match evalTo P fuel lo t s with
      | (s1, .error o) => (s1, o)
      | (s1, .ok l) =>
        match evalTo P fuel hi t (s1.set x l) with
        | (s2, .error o) => (s2, o)
        | (s2, .ok h) =>
          match step with
          | none => forIter P fuel A x t h (.int 1) true body p .run s2
          | some se =>
            match eval P fuel se s2 with
            | (s3, .error o) => (s3, o)
            | (s3, .ok sv) =>
              match stepSign p sv with
              | .error o => (s3, o)
              | .ok .neg => forIter P fuel A x t h sv false body p .run s3
              | .ok .pos => forIter P fuel A x t h sv true body p .run s3
              | .ok .zero => (s3, .error codeZeroStep se.pos)
  | fuel + 1, A, .while c body p, m, s =>
    if m.enters (.while c body p) then
      match (match m with
             | .run => evalCond P fuel c s
             | .seek _ => (s, .ok true)) with
      | (s1, .error o) => (s1, o)
      | (s1, .ok false) => (s1, .normal)
      | (s1, .ok true) =>
        match exec P fuel A body m s1 with
        | (s', .normal) => exec P fuel A (.while c body p) .run s'
        | (s', .jump L) => if body.hasLabel L then exec P fuel A (.while c body p) (.seek L) s' else (s', .jump L)
        | r => r
    else (s, .notHere)
  | fuel + 1, A, .doLoop c top until_ body p, m, s =>
    if m.enters (.doLoop c top until_ body p) then
      if top then
        match (match m with
               | .run => evalCond P fuel c s
               | .seek _ => (s, .ok (!until_))) with
        | (s1, .error o) => (s1, o)
        | (s1, .ok b) =>
          if b != until_ then
            match exec P fuel A body m s1 with
            | (s', .normal) => exec P fuel A (.doLoop c top until_ body p) .run s'
            | (s', .jump L) =>
              if body.hasLabel L then exec P fuel A (.doLoop c top until_ body p) (.seek L) s' else (s', .jump L)
            | r => r
          else (s1, .normal)
      else
        match exec P fuel A body m s with
        | (s', .normal) =>
          match evalCond P fuel c s' with
          | (s1, .error o) => (s1, o)
          | (s1, .ok b) => if b != until_ then exec P fuel A (.doLoop c top until_ body p) .run s1 else (s1, .normal)
        | (s', .jump L) =>
          if body.hasLabel L then exec P fuel A (.doLoop c top until_ body p) (.seek L) s' else (s', .jump L)
        | r => r
    else (s, .notHere)
  | _ + 1, _, .end_ _, m, s =>
    match m with
    | .run => (s, .halted)
    | .seek _ => (s, .notHere)
  | fuel + 1, _, .callSub f args _, m, s =>
    match m with
    | .seek _ => (s, .notHere)
    | .run =>
      match call P fuel f args s with
      | (s', .ok _) => (s', .normal)
      | (s', .error o) => (s', o)
  | _ + 1, _, .exitProc _, m, s =>
    match m with
    | .run => (s, .exited)
    | .seek _ => (s, .notHere)
  | _ + 1, _, .label L', m, s =>
    match m with
    | .run => (s, .normal)
    | .seek L => if L = L' then (s, .normal) else (s, .notHere)
  | _ + 1, _, .goto L, m, s =>
    match m with
    | .run => (s, .jump L)
    | .seek _ => (s, .notHere)
  | fuel + 1, A, .gosub L, m, s =>
    match m with
    | .seek _ => (s, .notHere)
    | .run =>
      -- a nested run of the body of the current activation, entered at the label
      match exec P fuel A A.body (.seek L) s with
      | (s', o) => (s', gosubEnd A.inProc o)
  | _ + 1, _, .ret p, m, s =>
    match m with
    | .run => (s, .ret p)
    | .seek _ => (s, .notHere)
/-- run mode: the first CASE block one of whose items matches runs; else the CASE ELSE block; else nothing -/
def execCases (P : Program) : Nat → Act → Pos → Val → Cases → St → St × Outcome
  | 0, _, _, _, _, s => (s, .outOfFuel)
  | _ + 1, _, _, _, .nil, s => (s, .normal)
  | fuel + 1, A, _, _, .else_ body, s => exec P fuel A body .run s
  | fuel + 1, A, p, subject, .case conds body rest, s =>
    match anyMatches P fuel p subject conds s with
    | (s1, .error o) => (s1, o)
    | (s1, .ok true) => exec P fuel A body .run s1
    | (s1, .ok false) => execCases P fuel A p subject rest s1
/-- seek mode: the block that contains the label is entered at the label -/
def seekCases (P : Program) : Nat → Act → Cases → Nat → St → St × Outcome
  | 0, _, _, _, s => (s, .outOfFuel)
  | _ + 1, _, .nil, _, s => (s, .notHere)
  | fuel + 1, A, .else_ body, L, s => exec P fuel A body (.seek L) s
  | fuel + 1, A, .case _ body rest, L, s =>
    if body.hasLabel L then exec P fuel A body (.seek L) s else seekCases P fuel A rest L s
/-- a jump between the blocks of one SELECT: the target block is entered, the SELECT is left when it ends -/
def selectSeek (P : Program) : Nat → Act → Cases → Nat → St → St × Outcome
  | 0, _, _, _, s => (s, .outOfFuel)
  | fuel + 1, A, cases, L, s =>
    match seekCases P fuel A cases L s with
    | (s', .jump L') => if cases.hasLabel L' then selectSeek P fuel A cases L' s' else (s', .jump L')
    | r => r
/-- one test-body-increment round of a FOR loop whose limit `h`, step `sv` and direction are fixed; in `seek` mode the
round is entered at a label of the body (a jump inside the body of the current iteration) -/
def forIter (P : Program) : Nat → Act → Var → Ty → Val → Val → Bool → Stmt → Pos → Mode → St → St × Outcome
  | 0, _, _, _, _, _, _, _, _, _, s => (s, .outOfFuel)
  | fuel + 1, A, x, t, h, sv, up, body, p, m, s =>
    let cur := s.get x t
    match (match m with
           | .run => relTest p (if up then .lessOrEqual else .greaterOrEqual) cur h
           | .seek _ => .ok true) with
    | .error o => (s, o)
    | .ok false => (s, .normal)
    | .ok true =>
      match exec P fuel A body m s with
      | (s', .normal) =>
        let cur' := s'.get x t
        match (plus cur' sv).bind (fun v => cast v t) with
        | .ok v => forIter P fuel A x t h sv up body p .run (s'.set x v)
        | .err e => (s', .error (codeOf e) p)
        | .inexact => (s', .inexact)
      | (s', .jump L) =>
        if body.hasLabel L then forIter P fuel A x t h sv up body p (.seek L) s' else (s', .jump L)
      | r => r
end

/-- the state a run starts in: every variable of every scope is zero / empty -/
def St.init (P : Program) : St :=
  { env := P.slots.map zeroOf, self := none, glob := P.gslots.map zeroOf,
    statics := fun f => match P.procs[f]? with | some d => d.slots.map zeroOf | none => [],
    out := Print.WritePrinter.new, data := P.data, dataIdx := 0 }

/-- what the outermost run of the main module answers: a RETURN that reaches it has no GOSUB to answer -/
def topOutcome : Outcome → Outcome
  | .ret p => .error codeReturnWithoutGoSub p
  | .jump _ => .illFormed
  | .notHere => .illFormed
  | .exited => .illFormed
  | o => o

/-- run a whole program -/
def run (fuel : Nat) (P : Program) : St × Outcome :=
  match exec P fuel ⟨false, P.body⟩ P.body .run (St.init P) with
  | (s, o) => (s, topOutcome o)

end RbModel.ProcJ.Ref
