import RbModel.ProcJ.Syntax
import RbModel.Proc.Compile
/-!
# RbModel.ProcJ.Compile — generator model of the layer "procedures ∪ jumps"

`rusty_basic/src/instruction_generator/{main, statement, expression, calls, loops, if_block, select_case, print, dim}.rs`
restricted to the constructs of `ProcJ.SStmt`: the generator model `RbModel.Proc.Compile` (program layout, call protocol,
`EXIT SUB / FUNCTION`, STATIC, DIM SHARED — see its header) plus the four statements of `RbModel.JmpL.Compile`:

* `Statement::Label`  → `Label name`;
* `Statement::GoTo`   → `(d − d_L)` × `PopRegisters`, `(e − e_L)` × `PopValueStackIntoA`, `Jump L` (`d` / `e`: FOR bodies / SELECT
  statements around the GOTO *inside its own body* — `for_depth` / `select_depth` restart at 0 in every procedure —, `d_L` / `e_L`
  those around the label: `label_for_depths`, `label_select_depths`, ONE table for the whole program, filled by
  `collect_label_depths` for the main module, the FUNCTIONs and the SUBs before generation = `depthProg`);
* `Statement::GoSub`  → `GoSub L`;  `Statement::Return(None)` → `Return`.

Label addresses: the real generator resolves names in a second pass over the whole list (`label_resolver.rs`, one map for all
scopes: the linter makes labels unique across scopes); here the address of every user label is computed structurally by
`addrProg`, which follows the layout of `compile` (sizes from `sizeStmt`, procedure addresses from `layout`).

Sizes of expressions, argument lists, PRINT items and CASE items do not depend on the statement syntax: they are those of
`RbModel.Proc.Compile` (imported).  `compile p = normalise (real list)` is demanded for every explored program by
`harness/src/bin/c03j.rs`.
-/
set_option linter.unusedVariables false

namespace RbModel.ProcJ.Compile
open RbModel RbModel.ProcJ
open RbModel.Num hiding Expr
open RbModel.Ast (Pos)
open RbModel.Proc (Var Expr Args PrintItem CaseExpr ProcDecl)
open RbModel.Proc.Compile (Layout Layout.addr sizeExpr sizePush refCount sizeExprTo sizeSubCall sizeItems sizeCaseExpr sizeConds
  sizeExit labelName stepSuffix maxPos)

inductive CInstr where
  | loadA (v : Val)
  | copyAToB | copyAToC | copyAToD | copyCToB | copyDToA | copyDToB
  | bin (op : Op)
  | negateA | notA
  | cast (t : Ty)
  | pushA | popA
  | varPath (x : Var) (t : Ty)
  | copyVarPathToA | popVarPath | copyAToVarPath
  | label (name : String)
  | jump (a : Nat) | jumpIfFalse (a : Nat)
  /-- `GoSub(Resolved a)` and `Return(None)` -/
  | goSub (a : Nat) | ret
  | pushRegs | popRegs
  | throwZeroStep
  | halt
  | allocate (t : Ty)
  | printSetPrinter | printSetFormat | printComma | printSemicolon | printValue | printEnd
  | beginArgs | pushByVal | pushByRef | pushStack | popStack
  | isDefined (x : Nat)
  | pushStatic (f : Nat)
  | pushNamed (name : String) (t : Ty)
  | pushRet (a : Nat) | popRet
  | builtInData | builtInRead
  | enqueue (i : Nat) | dequeue
  | stashResult (x : Nat) (t : Ty)
  | unStash
  deriving DecidableEq, Inhabited

abbrev Code := List (CInstr × Pos)

/-- `push_stack` -/
def pushStackInstr (lay : Layout) (f : Nat) : CInstr :=
  if (lay.getD f (0, false)).2 then .pushStatic f else .pushStack

/-! ### expressions and calls (as `Proc.Compile`, over this layer's instructions) -/

/-- `generate_stash_by_ref_args` -/
def enqueues : Nat → Args → Code
  | _, .nil => []
  | i, .cons e _ _ rest => (if e.isRef then [(.enqueue i, e.pos)] else []) ++ enqueues (i + 1) rest

/-- `generate_un_stash_by_ref_args` -/
def writeBacks : Args → Code
  | .nil => []
  | .cons (.var x t p) _ _ rest => [(.dequeue, p), (.varPath x t, p), (.copyAToVarPath, p)] ++ writeBacks rest
  | .cons _ _ _ rest => writeBacks rest

mutual
def compileExpr (lay : Layout) : Nat → Expr → Code
  | _, .lit v p => [(.loadA v, p)]
  | _, .var x t p => [(.varPath x t, p), (.copyVarPathToA, p), (.popVarPath, p)]
  | off, .un .neg e p => compileExpr lay off e ++ [(.negateA, p)]
  | off, .un .not e p => compileExpr lay off e ++ [(.notA, p)]
  | off, .bin op l r t p =>
    compileExpr lay off l ++ [(.pushA, p)] ++ compileExpr lay (off + sizeExpr l + 1) r ++
      [(.copyAToB, p), (.popA, p), (.bin op, p)] ++ (if op = .divide then [(.cast t, p)] else [])
  | off, .paren e _ => compileExpr lay off e
  | off, .callFn f args t p =>
    [(.beginArgs, p)] ++ pushArgs lay (off + 1) args ++
      [(pushStackInstr lay f, p), (.pushRet (off + 1 + sizePush args + 3), p), (.jump (lay.addr f), p)] ++
      enqueues 0 args ++ [(.stashResult args.length t, p), (.popStack, p)] ++ writeBacks args ++ [(.unStash, p)]
def pushArgs (lay : Layout) : Nat → Args → Code
  | _, .nil => []
  | off, .cons e pn pt rest =>
    compileExpr lay off e ++ (if e.ty = pt then [] else [(.cast pt, e.pos)]) ++ [(.pushNamed pn pt, e.pos)] ++
      pushArgs lay (off + sizeExpr e + (if e.ty = pt then 0 else 1) + 1) rest
end

def compileExprTo (lay : Layout) (off : Nat) (e : Expr) (target : Ty) : Code :=
  compileExpr lay off e ++ (if e.ty = target then [] else [(.cast target, e.pos)])

def compileSubCall (lay : Layout) (off f : Nat) (args : Args) (p : Pos) : Code :=
  [(.beginArgs, p)] ++ pushArgs lay (off + 1) args ++
    [(pushStackInstr lay f, p), (.pushRet (off + 1 + sizePush args + 3), p), (.jump (lay.addr f), p)] ++
    enqueues 0 args ++ [(.popStack, p)] ++ writeBacks args

def storeVar (x : Var) (t : Ty) (p : Pos) : Code := [(.varPath x t, p), (.copyAToVarPath, p)]

def loadVar (x : Var) (t : Ty) (p : Pos) : Code := [(.varPath x t, p), (.copyVarPathToA, p), (.popVarPath, p)]

def compileItems (lay : Layout) (p : Pos) : Nat → List PrintItem → Code
  | _, [] => []
  | off, .expr e :: rest => compileExpr lay off e ++ [(.printValue, e.pos)] ++ compileItems lay p (off + sizeExpr e + 1) rest
  | off, .comma :: rest => [(.printComma, p)] ++ compileItems lay p (off + 1) rest
  | off, .semicolon :: rest => [(.printSemicolon, p)] ++ compileItems lay p (off + 1) rest

def compileCaseExpr (lay : Layout) (p : Pos) (next off : Nat) : CaseExpr → Code
  | .simple e =>
    compileExpr lay off e ++ [(.copyAToB, p), (.popA, p), (.pushA, p), (.bin .equal, p), (.jumpIfFalse next, p)]
  | .is op e =>
    compileExpr lay off e ++ [(.copyAToB, p), (.popA, p), (.pushA, p), (.bin op, p), (.jumpIfFalse next, p)]
  | .range lo hi =>
    compileExpr lay off lo ++
      [(.copyAToB, p), (.popA, p), (.pushA, p), (.bin .greaterOrEqual, p), (.jumpIfFalse next, p)] ++
    compileExpr lay (off + sizeExpr lo + 5) hi ++
      [(.copyAToB, p), (.popA, p), (.pushA, p), (.bin .lessOrEqual, p), (.jumpIfFalse next, p)]

def compileConds (lay : Layout) (p : Pos) (sfx : String) (bi : Nat) (nextCase stmts : Nat) :
    Nat → Nat → List CaseExpr → Code
  | _, _, [] => []
  | off, _, [c] => compileCaseExpr lay p nextCase off c
  | off, ei, c :: rest =>
    let nextItem := off + sizeCaseExpr c + 1
    compileCaseExpr lay p nextItem off c ++ [(.jump stmts, p)] ++
      [(.label (labelName ("case-multi-expr-" ++ toString bi ++ "-" ++ toString (ei + 1)) p sfx), p)] ++
      compileConds lay p sfx bi nextCase stmts (nextItem + 1) (ei + 1) rest

def forBody (sfx : String) (x : Var) (t : Ty) (bodyCode : Code) (up : Bool) (p : Pos) (off outOff : Nat) : Code :=
  [(.label (labelName (if up then "positive-loop" else "negative-loop") p sfx), p), (.copyCToB, p)] ++ loadVar x t p ++
    [(.bin (if up then .lessOrEqual else .greaterOrEqual), p), (.jumpIfFalse outOff, p), (.pushRegs, p)] ++
    bodyCode ++
    [(.popRegs, p)] ++ loadVar x t p ++ [(.copyDToB, p), (.bin .plus, p), (.cast t, p)] ++ storeVar x t p ++
    [(.jump off, p)]

/-! ### the label tables -/

/-- the nesting depths of the user labels (`label_for_depths`, `label_select_depths`): number of FOR bodies / SELECT
statements around the label statement, inside its own body -/
structure Dp where
  fd : Nat → Nat
  sd : Nat → Nat

/-- a `GOTO L` generated at FOR depth `d` and SELECT depth `e` -/
def sizeGoto (dp : Dp) (d e L : Nat) : Nat := (d - dp.fd L) + (e - dp.sd L) + 1

mutual
/-- `fd` / `sd`: number of enclosing FOR bodies / SELECT CASE statements (`for_depth`, `select_depth`) -/
def sizeStmt (dp : Dp) : Nat → Nat → SStmt → Nat
  | _, _, .skip => 0
  | fd, sd, .seq a b => sizeStmt dp fd sd a + sizeStmt dp fd sd b
  | _, _, .comment => 0
  | _, _, .dim _ _ _ => 3
  | _, _, .sdim _ _ _ => 8
  | _, _, .assign _ t e _ => sizeExprTo e t + 2
  | _, _, .print items _ => 3 + sizeItems items + 1
  | _, _, .data items _ => 1 + 2 * items.length + 3
  | _, _, .read vars _ => if vars.isEmpty then 4 else 11 * vars.length
  | fd, sd, .ifBlock c thn elifs hasElse els _ =>
    sizeExpr c + 1 + sizeStmt dp fd sd thn + 1 + sizeElifs dp fd sd elifs +
      (if hasElse then 1 + sizeStmt dp fd sd els else 0) + 1
  | fd, sd, .select e cases hasElse els _ =>
    sizeExpr e + 1 + 3 + sizeCases dp fd (sd + 1) cases + (if hasElse then 1 + sizeStmt dp fd (sd + 1) els else 0) + 3
  | fd, sd, .forLoop x t lo hi step body p =>
    sizeExprTo lo t + 2 + sizeExprTo hi t +
    (match step with
     | none => 6 + (18 + sizeStmt dp (fd + 1) sd body) + 1
     | some s => 1 + sizeExpr s + 11 + (18 + sizeStmt dp (fd + 1) sd body) + 2 + 3 + (18 + sizeStmt dp (fd + 1) sd body) + 4)
  | fd, sd, .while c body _ => 1 + sizeExpr c + 1 + sizeStmt dp fd sd body + 2
  | fd, sd, .doLoop c top u body _ =>
    if top then 1 + sizeExpr c + (if u then 3 else 1) + sizeStmt dp fd sd body + 2
    else 1 + sizeStmt dp fd sd body + sizeExpr c + (if u then 1 else 2) + 1
  | _, _, .end_ _ => 1
  | _, _, .callSub _ args _ => sizeSubCall args
  | fd, sd, .exitProc _ => sizeExit fd sd
  | _, _, .label _ _ _ => 1
  | fd, sd, .goto L _ => sizeGoto dp fd sd L
  | _, _, .gosub _ _ => 1
  | _, _, .ret _ => 1
def sizeElifs (dp : Dp) : Nat → Nat → ElseIfs → Nat
  | _, _, .nil => 0
  | fd, sd, .cons c body rest => 1 + sizeExpr c + 1 + sizeStmt dp fd sd body + 1 + sizeElifs dp fd sd rest
def sizeCases (dp : Dp) : Nat → Nat → SCases → Nat
  | _, _, .nil => 0
  | fd, sd, .cons conds body rest =>
    1 + sizeConds conds + (if conds.length > 1 then 1 else 0) + sizeStmt dp fd sd body + 1 + sizeCases dp fd sd rest
end

/-- loop head (8) + body + increment (10) (`generate_for_loop_instructions_positive_or_negative_step`) -/
def sizeForBody (dp : Dp) (fd sd : Nat) (body : SStmt) : Nat := 18 + sizeStmt dp (fd + 1) sd body

mutual
/-- `(L, for depth, select depth)` of every label statement, in program order: `collect_label_depths` -/
def depthTable (d e : Nat) : SStmt → List (Nat × Nat × Nat)
  | .seq a b => depthTable d e a ++ depthTable d e b
  | .ifBlock _ thn elifs _ els _ => depthTable d e thn ++ depthElifs d e elifs ++ depthTable d e els
  | .select _ cases _ els _ => depthCases d (e + 1) cases ++ depthTable d (e + 1) els
  | .forLoop _ _ _ _ _ body _ => depthTable (d + 1) e body
  | .while _ body _ => depthTable d e body
  | .doLoop _ _ _ body _ => depthTable d e body
  | .label L _ _ => [(L, d, e)]
  | _ => []
def depthElifs (d e : Nat) : ElseIfs → List (Nat × Nat × Nat)
  | .nil => []
  | .cons _ body rest => depthTable d e body ++ depthElifs d e rest
def depthCases (d e : Nat) : SCases → List (Nat × Nat × Nat)
  | .nil => []
  | .cons _ body rest => depthTable d e body ++ depthCases d e rest
end

def lookupNat (L : Nat) : List (Nat × Nat) → Option Nat
  | [] => none
  | (k, v) :: rest => if k = L then some v else lookupNat L rest

def lookupDepth (L : Nat) : List (Nat × Nat × Nat) → Option (Nat × Nat)
  | [] => none
  | (k, v) :: rest => if k = L then some v else lookupDepth L rest

/-- the depths of a label; a label that is not defined has the depths of the GOTO that names it
(`.get(&name).copied().unwrap_or(self.for_depth)`): modelled by "very deep", so that nothing is popped -/
def Dp.ofTable (t : List (Nat × Nat × Nat)) : Dp :=
  ⟨fun L => match lookupDepth L t with | some (d, _) => d | none => 1000000,
   fun L => match lookupDepth L t with | some (_, e) => e | none => 1000000⟩

mutual
/-- `(L, address of its Label instruction)` for the code of the statement placed at `off` -/
def addrTable (dp : Dp) (d e : Nat) (off : Nat) : SStmt → List (Nat × Nat)
  | .seq a b => addrTable dp d e off a ++ addrTable dp d e (off + sizeStmt dp d e a) b
  | .ifBlock c thn elifs hasElse els _ =>
    let thnOff := off + sizeExpr c + 1
    let afterThn := thnOff + sizeStmt dp d e thn + 1
    let elseOff := afterThn + sizeElifs dp d e elifs
    addrTable dp d e thnOff thn ++ addrElifs dp d e afterThn elifs ++
      (if hasElse then addrTable dp d e (elseOff + 1) els else [])
  | .select sel cases hasElse els _ =>
    let casesOff := off + sizeExpr sel + 1 + 3
    let elseOff := casesOff + sizeCases dp d (e + 1) cases
    addrCases dp d (e + 1) casesOff cases ++ (if hasElse then addrTable dp d (e + 1) (elseOff + 1) els else [])
  | .forLoop x t lo hi step body _ =>
    let hdr := off + sizeExprTo lo t + 2 + sizeExprTo hi t
    match step with
    | none => addrTable dp (d + 1) e (hdr + 6 + 8) body
    | some s =>
      -- the body is generated twice; the resolver keeps the later copy (the positive one)
      let negOff := hdr + 1 + sizeExpr s + 11
      let posOff := negOff + sizeForBody dp d e body + 1 + 4
      addrTable dp (d + 1) e (posOff + 8) body ++ addrTable dp (d + 1) e (negOff + 8) body
  | .while c body _ => addrTable dp d e (off + 1 + sizeExpr c + 1) body
  | .doLoop c top u body _ =>
    if top then addrTable dp d e (off + 1 + sizeExpr c + (if u then 3 else 1)) body
    else addrTable dp d e (off + 1) body
  | .label L _ _ => [(L, off)]
  | _ => []
def addrElifs (dp : Dp) (d e : Nat) (off : Nat) : ElseIfs → List (Nat × Nat)
  | .nil => []
  | .cons c body rest =>
    let bodyOff := off + 1 + sizeExpr c + 1
    addrTable dp d e bodyOff body ++ addrElifs dp d e (bodyOff + sizeStmt dp d e body + 1) rest
def addrCases (dp : Dp) (d e : Nat) (off : Nat) : SCases → List (Nat × Nat)
  | .nil => []
  | .cons conds body rest =>
    let bodyOff := off + 1 + sizeConds conds + (if conds.length > 1 then 1 else 0)
    addrTable dp d e bodyOff body ++ addrCases dp d e (bodyOff + sizeStmt dp d e body + 1) rest
end

/-- what the generator knows about the user labels while it emits code -/
structure LEnv where
  dp : Dp
  /-- resolved address of a label (`LabelResolver`) -/
  addr : Nat → Nat

/-- `GOTO L` at depths `d` / `e` -/
def compileGoto (env : LEnv) (d e L : Nat) (p : Pos) : Code :=
  List.replicate (d - env.dp.fd L) (.popRegs, p) ++ List.replicate (e - env.dp.sd L) (.popA, p) ++ [(.jump (env.addr L), p)]

/-! ### statements -/

mutual
/-- `Visitor<StatementPos>`: `sfx` label suffix, `fd`/`sd` FOR / SELECT depth, `off` address of the first
emitted instruction -/
def compileStmt (lay : Layout) (env : LEnv) : String → Nat → Nat → Nat → SStmt → Code
  | sfx, fd, sd, _, .skip => []
  | sfx, fd, sd, off, .seq a b =>
    compileStmt lay env sfx fd sd off a ++ compileStmt lay env sfx fd sd (off + sizeStmt env.dp fd sd a) b
  | sfx, fd, sd, _, .comment => []
  | sfx, fd, sd, _, .dim x t p => [(.allocate t, p), (.varPath x t, p), (.copyAToVarPath, p)]
  | sfx, fd, sd, off, .sdim x t p =>
    [(.isDefined x, p), (.jumpIfFalse (off + 3), p), (.jump (off + 7), p), (.label (labelName "begin-dim" p sfx), p),
     (.allocate t, p), (.varPath ⟨false, x⟩ t, p), (.copyAToVarPath, p), (.label (labelName "end-dim" p sfx), p)]
  | sfx, fd, sd, off, .assign x t e p => compileExprTo lay off e t ++ storeVar x t p
  | sfx, fd, sd, off, .print items p =>
    [(.printSetPrinter, p), (.loadA (.int 0), p), (.printSetFormat, p)] ++ compileItems lay p (off + 3) items ++
      [(.printEnd, p)]
  | sfx, fd, sd, _, .data items p =>
    [(.beginArgs, p)] ++ items.flatMap (fun (v, q) => [(.loadA v, q), (.pushByVal, q)]) ++
      [(.pushStack, p), (.builtInData, p), (.popStack, p)]
  | sfx, fd, sd, _, .read vars p =>
    if vars.isEmpty then [(.beginArgs, p), (.pushStack, p), (.builtInRead, p), (.popStack, p)]
    else vars.flatMap (fun (x, t, q) =>
      [(.beginArgs, p), (.varPath x t, q), (.copyVarPathToA, q), (.pushByRef, q), (.pushStack, p), (.builtInRead, p),
       (.enqueue 0, q), (.popStack, p), (.dequeue, q), (.varPath x t, q), (.copyAToVarPath, q)])
  | sfx, fd, sd, off, .ifBlock c thn elifs hasElse els p =>
    let nc := sizeExpr c
    let thnOff := off + nc + 1
    let afterThn := thnOff + sizeStmt env.dp fd sd thn + 1
    let elseOff := afterThn + sizeElifs env.dp fd sd elifs
    let endOff := elseOff + (if hasElse then 1 + sizeStmt env.dp fd sd els else 0)
    compileExpr lay off c ++ [(.jumpIfFalse afterThn, p)] ++ compileStmt lay env sfx fd sd thnOff thn ++ [(.jump endOff, p)] ++
      compileElifs lay env sfx fd sd p endOff afterThn 0 elifs ++
      (if hasElse then [(.label (labelName "else" p sfx), p)] ++ compileStmt lay env sfx fd sd (elseOff + 1) els else []) ++
      [(.label (labelName "end-if" p sfx), p)]
  | sfx, fd, sd, off, .select e cases hasElse els p =>
    let ne := sizeExpr e
    let casesOff := off + ne + 1 + 3
    let elseOff := casesOff + sizeCases env.dp fd (sd + 1) cases
    let endOff := elseOff + (if hasElse then 1 + sizeStmt env.dp fd (sd + 1) els else 0)
    compileExpr lay off e ++ [(.pushA, p)] ++
      [(.jump (casesOff - 1), p), (.jump (endOff + 2), p), (.label (labelName "select-begin" p sfx), p)] ++
      compileCases lay env sfx fd (sd + 1) p endOff casesOff 0 cases ++
      (if hasElse then [(.label (labelName "case-else" p sfx), p)] ++ compileStmt lay env sfx fd (sd + 1) (elseOff + 1) els
       else []) ++
      [(.label (labelName "end-select" p sfx), p), (.popA, p), (.label (labelName "select-skip" p sfx), p)]
  | sfx, fd, sd, off, .forLoop x t lo hi step body p =>
    let nlo := sizeExprTo lo t
    let nhi := sizeExprTo hi t
    let hdr := off + nlo + 2 + nhi
    compileExprTo lay off lo t ++ storeVar x t p ++ compileExprTo lay (off + nlo + 2) hi t ++
    (match step with
     | none =>
       let bodyOff := hdr + 6
       let outOff := bodyOff + sizeForBody env.dp fd sd body
       [(.copyAToC, p), (.loadA (.int 1), p), (.copyAToD, p),
        (.jump (hdr + 5), p), (.jump outOff, p), (.label (labelName "for-begin" p sfx), p)] ++
         forBody sfx x t (compileStmt lay env (stepSuffix sfx true) (fd + 1) sd (bodyOff + 8) body) true p bodyOff outOff ++
         [(.label (labelName "out-of-for" p sfx), p)]
     | some s =>
       let ns := sizeExpr s
       let negOff := hdr + 1 + ns + 11
       let testPosOff := negOff + sizeForBody env.dp fd sd body + 1
       let posOff := testPosOff + 4
       let zeroOff := posOff + sizeForBody env.dp fd sd body + 1
       let outOff := zeroOff + 2
       [(.pushA, p)] ++ compileExpr lay (hdr + 1) s ++
         [(.copyAToD, p), (.popA, p), (.copyAToC, p),
          (.jump (hdr + 1 + ns + 5), p), (.jump outOff, p), (.label (labelName "for-begin" p sfx), p),
          (.loadA (.int 0), p), (.copyAToB, p), (.copyDToA, p),
          (.bin .less, p), (.jumpIfFalse testPosOff, p)] ++
         forBody sfx x t (compileStmt lay env (stepSuffix sfx false) (fd + 1) sd (negOff + 8) body) false p negOff outOff ++
         [(.jump outOff, p), (.label (labelName "test-positive-or-zero" p sfx), p), (.copyDToA, p),
          (.bin .greater, p), (.jumpIfFalse zeroOff, p)] ++
         forBody sfx x t (compileStmt lay env (stepSuffix sfx true) (fd + 1) sd (posOff + 8) body) true p posOff outOff ++
         [(.jump outOff, p), (.label (labelName "zero" p sfx), p), (.throwZeroStep, s.pos),
          (.label (labelName "out-of-for" p sfx), p)])
  | sfx, fd, sd, off, .while c body p =>
    let nc := sizeExpr c
    let bodyOff := off + 1 + nc + 1
    let wendOff := bodyOff + sizeStmt env.dp fd sd body + 1
    [(.label (labelName "while" p sfx), p)] ++ compileExpr lay (off + 1) c ++ [(.jumpIfFalse wendOff, p)] ++
      compileStmt lay env sfx fd sd bodyOff body ++ [(.jump off, p), (.label (labelName "wend" p sfx), p)]
  | sfx, fd, sd, off, .doLoop c top u body p =>
    let nc := sizeExpr c
    if top then
      let bodyOff := off + 1 + nc + (if u then 3 else 1)
      let loopOff := bodyOff + sizeStmt env.dp fd sd body + 1
      [(.label (labelName "do" p sfx), p)] ++ compileExpr lay (off + 1) c ++
        (if u then [(.jumpIfFalse (bodyOff - 1), p), (.jump loopOff, p), (.label (labelName "do-body" p sfx), p)]
         else [(.jumpIfFalse loopOff, p)]) ++
        compileStmt lay env sfx fd sd bodyOff body ++
        [(.jump off, p), (.label (labelName "loop" p sfx), p)]
    else
      let loopOff := off + 1 + sizeStmt env.dp fd sd body + nc + (if u then 1 else 2)
      [(.label (labelName "do" p sfx), p)] ++ compileStmt lay env sfx fd sd (off + 1) body ++
        compileExpr lay (off + 1 + sizeStmt env.dp fd sd body) c ++
        (if u then [(.jumpIfFalse off, p)] else [(.jumpIfFalse loopOff, p), (.jump off, p)]) ++
        [(.label (labelName "loop" p sfx), p)]
  | sfx, fd, sd, _, .end_ p => [(.halt, p)]
  | sfx, fd, sd, off, .callSub f args p => compileSubCall lay off f args p
  | sfx, fd, sd, _, .exitProc p =>
    List.replicate fd (.popRegs, p) ++ List.replicate sd (.popA, p) ++ [(.popRet, p)]
  | sfx, fd, sd, _, .label _ name p => [(.label name, p)]
  | sfx, fd, sd, _, .goto L p => compileGoto env fd sd L p
  | sfx, fd, sd, _, .gosub L p => [(.goSub (env.addr L), p)]
  | sfx, fd, sd, _, .ret p => [(.ret, p)]
def compileElifs (lay : Layout) (env : LEnv) : String → Nat → Nat → Pos → Nat → Nat → Nat → ElseIfs → Code
  | _, _, _, _, _, _, _, .nil => []
  | sfx, fd, sd, p, endOff, off, i, .cons c body rest =>
    let nc := sizeExpr c
    let bodyOff := off + 1 + nc + 1
    let next := bodyOff + sizeStmt env.dp fd sd body + 1
    [(.label (labelName ("else-if-" ++ toString i) p sfx), p)] ++ compileExpr lay (off + 1) c ++
      [(.jumpIfFalse next, p)] ++
      compileStmt lay env sfx fd sd bodyOff body ++ [(.jump endOff, p)] ++
      compileElifs lay env sfx fd sd p endOff next (i + 1) rest
def compileCases (lay : Layout) (env : LEnv) : String → Nat → Nat → Pos → Nat → Nat → Nat → SCases → Code
  | _, _, _, _, _, _, _, .nil => []
  | sfx, fd, sd, p, endOff, off, i, .cons conds body rest =>
    let multi := decide (conds.length > 1)
    let condsOff := off + 1
    let stmtsLabel := condsOff + sizeConds conds
    let bodyOff := stmtsLabel + (if multi then 1 else 0)
    let next := bodyOff + sizeStmt env.dp fd sd body + 1
    [(.label (labelName ("case" ++ toString i) p sfx), p)] ++
      compileConds lay p sfx i next stmtsLabel condsOff 0 conds ++
      (if multi then [(.label (labelName ("case-statements" ++ toString i) p sfx), p)] else []) ++
      compileStmt lay env sfx fd sd bodyOff body ++ [(.jump endOff, p)] ++
      compileCases lay env sfx fd sd p endOff next (i + 1) rest
end

/-! ### whole programs -/

/-- `move_data_statements_first` -/
def topLevel : SStmt → List SStmt
  | .seq a b => topLevel a ++ topLevel b
  | .skip => []
  | s => [s]

def isData : SStmt → Bool
  | .data _ _ => true
  | _ => false

def seqOf : List SStmt → SStmt
  | [] => .skip
  | s :: rest => .seq s (seqOf rest)

def reorder (body : SStmt) : SStmt :=
  let ss := topLevel body
  seqOf (ss.filter isData ++ ss.filter (fun s => !isData s))

/-- number of instructions between a procedure's label and its body: the label, then for a FUNCTION the default result
(`AllocateBuiltIn`; a STATIC one also stores it into its result variable) -/
def headerSize (d : ProcDecl SStmt) : Nat :=
  1 + (if d.result.isSome then (if d.static then 3 else 1) else 0)

/-- size of a procedure: header, body, `PopRet` -/
def sizeProc (dp : Dp) (d : ProcDecl SStmt) : Nat := headerSize d + sizeStmt dp 0 0 d.body + 1

/-- addresses of the procedures' labels (the first one at `off`) and their STATIC flags -/
def layoutFrom (dp : Dp) : Nat → List (ProcDecl SStmt) → Layout
  | _, [] => []
  | off, d :: rest => (off, d.static) :: layoutFrom dp (off + sizeProc dp d) rest

/-- `collect_label_depths` over the main module, then every procedure (depths restart at 0 in each) -/
def depthProg (prog : SProgram) : List (Nat × Nat × Nat) :=
  depthTable 0 0 (reorder prog.body) ++ prog.procs.flatMap fun d => depthTable 0 0 d.body

def dpOf (prog : SProgram) : Dp := Dp.ofTable (depthProg prog)

def layout (prog : SProgram) : Layout :=
  layoutFrom (dpOf prog) (sizeStmt (dpOf prog) 0 0 (reorder prog.body) + 1) prog.procs

/-- the label addresses inside the procedures, the first procedure's label at `off` -/
def addrProcs (dp : Dp) : Nat → List (ProcDecl SStmt) → List (Nat × Nat)
  | _, [] => []
  | off, d :: rest => addrTable dp 0 0 (off + headerSize d) d.body ++ addrProcs dp (off + sizeProc dp d) rest

/-- the address of every user label of the program (`LabelResolver::build_label_to_address_map`) -/
def addrProg (prog : SProgram) : List (Nat × Nat) :=
  let dp := dpOf prog
  let body := reorder prog.body
  addrTable dp 0 0 0 body ++ addrProcs dp (sizeStmt dp 0 0 body + 1) prog.procs

def envOf (prog : SProgram) : LEnv :=
  ⟨dpOf prog, fun L => (lookupNat L (addrProg prog)).getD 0⟩

/-- `visit_function` / `visit_sub` + `subprogram_body`, the label at `off` -/
def compileProc (lay : Layout) (env : LEnv) (off : Nat) (d : ProcDecl SStmt) : Code :=
  match d.result with
  | some t =>
    if d.static then
      [(.label (":fun:" ++ d.name), d.pos), (.allocate t, d.pos), (.varPath ⟨false, d.resultSlot⟩ t, d.pos),
       (.copyAToVarPath, d.pos)] ++ compileStmt lay env "" 0 0 (off + 4) d.body ++ [(.popRet, d.pos)]
    else
      [(.label (":fun:" ++ d.name), d.pos), (.allocate t, d.pos)] ++ compileStmt lay env "" 0 0 (off + 2) d.body ++
        [(.popRet, d.pos)]
  | none =>
    [(.label (":sub:" ++ d.name), d.pos)] ++ compileStmt lay env "" 0 0 (off + 1) d.body ++ [(.popRet, d.pos)]

def compileProcs (lay : Layout) (env : LEnv) : Nat → List (ProcDecl SStmt) → Code
  | _, [] => []
  | off, d :: rest => compileProc lay env off d ++ compileProcs lay env (off + sizeProc env.dp d) rest

/-- `generate_instructions` -/
def compile (prog : SProgram) : Code :=
  let body := reorder prog.body
  let lay := layout prog
  let env := envOf prog
  compileStmt lay env "" 0 0 0 body ++ [(.halt, maxPos)] ++ compileProcs lay env (sizeStmt env.dp 0 0 body + 1) prog.procs

/-! ### normalisation of the real instruction list -/

open RbModel.Proc.Compile (litToVal qualToTy slotOf ScopeInfo upper qnameText param? targetAddr scopeLabel? dimVarName?)

def normInstr (scopes : List ScopeInfo) (gtable table : List (String × Ty)) : Instr → Option CInstr
  | .loadIntoA v => (litToVal v).map .loadA
  | .copyAToB => some .copyAToB | .copyAToC => some .copyAToC | .copyAToD => some .copyAToD
  | .copyCToB => some .copyCToB | .copyDToA => some .copyDToA | .copyDToB => some .copyDToB
  | .plus => some (.bin .plus) | .minus => some (.bin .minus) | .multiply => some (.bin .multiply)
  | .divide => some (.bin .divide) | .modulo => some (.bin .modulo)
  | .less => some (.bin .less) | .lessOrEqual => some (.bin .lessOrEqual) | .equal => some (.bin .equal)
  | .greaterOrEqual => some (.bin .greaterOrEqual) | .greater => some (.bin .greater)
  | .notEqual => some (.bin .notEqual) | .and => some (.bin .and) | .or => some (.bin .or)
  | .negateA => some .negateA | .notA => some .notA
  | .cast q => some (.cast (qualToTy q))
  | .pushAToValueStack => some .pushA | .popValueStackIntoA => some .popA
  | .varPathName n sh =>
    match n.q with
    | none => none
    | some q => (slotOf (if sh then gtable else table) n).map fun x => .varPath ⟨sh, x⟩ (qualToTy q)
  | .copyVarPathToA => some .copyVarPathToA | .popVarPath => some .popVarPath
  | .copyAToVarPath => some .copyAToVarPath
  | .label l => some (.label l)
  | .jump t => (targetAddr t).map .jump
  | .jumpIfFalse t => (targetAddr t).map .jumpIfFalse
  | .goSub t => (targetAddr t).map .goSub
  | .ret none => some .ret
  | .pushRegisters => some .pushRegs | .popRegisters => some .popRegs
  | .throw e => if e == "ForLoopZeroStep" then some .throwZeroStep else none
  | .halt => some .halt
  | .allocateBuiltIn q => some (.allocate (qualToTy q))
  | .printSetPrinterType p => if p == "print" then some .printSetPrinter else none
  | .printSetFormatStringFromA => some .printSetFormat
  | .printComma => some .printComma | .printSemicolon => some .printSemicolon
  | .printValueFromA => some .printValue | .printEnd => some .printEnd
  | .beginCollectArguments => some .beginArgs
  | .pushUnnamedByVal => some .pushByVal | .pushUnnamedByRef => some .pushByRef
  | .pushStack => some .pushStack | .popStack => some .popStack
  | .pushStaticStack sc =>
    match scopeLabel? sc with
    | none => none
    | some l => (scopes.findIdx? (fun sc => upper sc.label == upper l)).map .pushStatic
  | .pushNamed p => (param? p).map fun (n, t) => .pushNamed n t
  | .pushRet a => some (.pushRet a)
  | .popRet => some .popRet
  | .builtInSub n => if n == "Data" then some .builtInData else if n == "Read" then some .builtInRead else none
  | .enqueueToReturnStack i => some (.enqueue i)
  | .dequeueFromReturnStack => some .dequeue
  | .stashFunctionReturnValue n =>
    match scopes.find? (fun sc => upper sc.label == upper (":fun:" ++ qnameText n)) with
    | some sc => sc.result.map fun t => .stashResult sc.nparams t
    | none => none
  | .unStashFunctionReturnValue => some .unStash
  | .isVariableDefined dbg =>
    match dimVarName? dbg with
    | some n => (slotOf table n).map .isDefined
    | none => none
  | _ => none

/-- the slot-name table changes at the label of every procedure -/
def normFrom (scopes : List ScopeInfo) (gtable : List (String × Ty)) : List (String × Ty) → List InstrPos → Option Code
  | _, [] => some []
  | table, ip :: rest =>
    let table' := match ip.instr with
      | .label l =>
        (match scopes.find? (fun sc => sc.label == l) with
         | some sc => sc.table
         | none => table)
      | _ => table
    match normInstr scopes gtable table' ip.instr with
    | none => none
    | some c =>
      match normFrom scopes gtable table' rest with
      | none => none
      | some cs => some ((c, ⟨ip.row, ip.col⟩) :: cs)

def normalise (mainTable gtable : List (String × Ty)) (scopes : List ScopeInfo) (code : Array InstrPos) : Option Code :=
  normFrom scopes gtable mainTable code.toList

def firstDiff : Code → Code → Nat → Option Nat
  | [], [], _ => none
  | a :: as, b :: bs, i => if a = b then firstDiff as bs (i + 1) else some i
  | _, _, i => some i

end RbModel.ProcJ.Compile
