import RbModel.ProcJ.Compile
import RbModel.Proc.WfB
/-!
# RbModel.ProcJ.WfB — the executable premise checker of the layer "procedures ∪ jumps" (`procj.wf`)

`progWfB prog` decides the static premise of the layer's simulation theorem.  No theorem imports: the driver evaluates it on
every program the harness explores.  It is the conjunction of the premises of the two layers it unites:

* per scope (main module / each procedure) everything `RbModel.Proc.progWfB` checks: variables are slots of the scope or of the
  DIM SHARED table at the slot's type, guarded DIM exactly inside STATIC procedures, operator nodes typed by the checker's
  table, calls name an existing procedure of the right kind with the annotated parameters, by-reference actuals have the
  parameter's type, conditions are not strings, `CASE IS` is relational, a missing ELSE is empty, DATA only at the top level of
  the main module, EXIT SUB / FUNCTION only inside a procedure, slot tables start with parameters (and result);
* what `RbModel.JmpL.progWfB` checks, with *labels per procedure*: a label is defined once in the whole program
  (`label_linter.rs`: unique across scopes); every GOTO / GOSUB target is a label of the body the statement occurs in; for every
  `GOTO L` the FOR statements and SELECT statements enclosing the label all enclose the GOTO (checked locally as in `JmpL.WfB`);
  every GOSUB target has no enclosing FOR / SELECT; no label inside the body of a `FOR … STEP` (the body is generated twice:
  known finding C05-a).
-/
namespace RbModel.ProcJ
open RbModel RbModel.ProcJ.Compile
open RbModel.Num hiding Expr
open RbModel.Ast (Pos)
open RbModel.Proc (Var SlotTabs Expr Args PrintItem CaseExpr ProcDecl Sigs sigsOf eWfB aWfB itemsWfB caseWfB condsWfB readWfB)

mutual
def SStmt.labels : SStmt → List Nat
  | .seq a b => a.labels ++ b.labels
  | .ifBlock _ thn elifs _ els _ => thn.labels ++ (elifs.labels ++ els.labels)
  | .select _ cases _ els _ => cases.labels ++ els.labels
  | .forLoop _ _ _ _ _ body _ => body.labels
  | .while _ body _ => body.labels
  | .doLoop _ _ _ body _ => body.labels
  | .label L _ _ => [L]
  | _ => []
def ElseIfs.labels : ElseIfs → List Nat
  | .nil => []
  | .cons _ body rest => body.labels ++ rest.labels
def SCases.labels : SCases → List Nat
  | .nil => []
  | .cons _ body rest => body.labels ++ rest.labels
end

mutual
def SStmt.gotos : SStmt → List Nat
  | .seq a b => a.gotos ++ b.gotos
  | .ifBlock _ thn elifs _ els _ => thn.gotos ++ (elifs.gotos ++ els.gotos)
  | .select _ cases _ els _ => cases.gotos ++ els.gotos
  | .forLoop _ _ _ _ _ body _ => body.gotos
  | .while _ body _ => body.gotos
  | .doLoop _ _ _ body _ => body.gotos
  | .goto L _ => [L]
  | _ => []
def ElseIfs.gotos : ElseIfs → List Nat
  | .nil => []
  | .cons _ body rest => body.gotos ++ rest.gotos
def SCases.gotos : SCases → List Nat
  | .nil => []
  | .cons _ body rest => body.gotos ++ rest.gotos
end

mutual
def SStmt.gosubs : SStmt → List Nat
  | .seq a b => a.gosubs ++ b.gosubs
  | .ifBlock _ thn elifs _ els _ => thn.gosubs ++ (elifs.gosubs ++ els.gosubs)
  | .select _ cases _ els _ => cases.gosubs ++ els.gosubs
  | .forLoop _ _ _ _ _ body _ => body.gosubs
  | .while _ body _ => body.gosubs
  | .doLoop _ _ _ body _ => body.gosubs
  | .gosub L _ => [L]
  | _ => []
def ElseIfs.gosubs : ElseIfs → List Nat
  | .nil => []
  | .cons _ body rest => body.gosubs ++ rest.gosubs
def SCases.gosubs : SCases → List Nat
  | .nil => []
  | .cons _ body rest => body.gosubs ++ rest.gosubs
end

def isSkipB : SStmt → Bool
  | .skip => true
  | _ => false

/-- a GOTO that leaves a construct (its label is not among `inner`) names a label that is not deeper than the construct -/
def leavesB (depthOf : Nat → Nat) (depth : Nat) (inner gotos : List Nat) : Bool :=
  gotos.all fun L => inner.contains L || decide (depthOf L ≤ depth)

mutual
/-- `sg` signatures, `sl` slot tables of the scope, `inProc` / `st` as in `Proc.wfB`, `dp` the label depths of the program,
`d` / `e` the FOR / SELECT depth inside the body -/
def wfB (sg : Sigs) (sl : SlotTabs) (inProc st : Bool) (dp : Dp) (d e : Nat) : SStmt → Bool
  | .skip => true
  | .comment => true
  | .seq a b => wfB sg sl inProc st dp d e a && wfB sg sl inProc st dp d e b
  | .dim x t _ => decide (sl.get? x = some t) && !st
  | .sdim x t _ => decide (sl.loc[x]? = some t) && st
  | .assign x t ex _ => decide (sl.get? x = some t) && eWfB sg sl ex
  | .print items _ => itemsWfB sg sl items
  | .ifBlock c thn elifs hasElse els _ =>
    eWfB sg sl c && decide (c.ty ≠ .str) && wfB sg sl inProc st dp d e thn && wfElifsB sg sl inProc st dp d e elifs &&
      wfB sg sl inProc st dp d e els && (hasElse || isSkipB els)
  | .while c body _ => eWfB sg sl c && decide (c.ty ≠ .str) && wfB sg sl inProc st dp d e body
  | .doLoop c _ _ body _ => eWfB sg sl c && decide (c.ty ≠ .str) && wfB sg sl inProc st dp d e body
  | .end_ _ => true
  | .data _ _ => false
  | .read vars _ => readWfB sl vars
  | .select sel cases hasElse els _ =>
    eWfB sg sl sel && wfCasesB sg sl inProc st dp d (e + 1) cases && wfB sg sl inProc st dp d (e + 1) els &&
      (hasElse || isSkipB els) && leavesB dp.sd e (cases.labels ++ els.labels) (cases.gotos ++ els.gotos)
  | .forLoop x t lo hi step body _ =>
    decide (sl.get? x = some t) && eWfB sg sl lo && eWfB sg sl hi &&
      (match step with | some se => eWfB sg sl se && body.labels.isEmpty | none => true) &&
      wfB sg sl inProc st dp (d + 1) e body && leavesB dp.fd d body.labels body.gotos
  | .callSub f args _ => decide (sg[f]? = some (none, args.params)) && aWfB sg sl args
  | .exitProc _ => inProc
  | .label _ _ _ => true
  | .goto L _ => decide (dp.fd L ≤ d) && decide (dp.sd L ≤ e)
  | .gosub L _ => decide (dp.fd L = 0) && decide (dp.sd L = 0)
  | .ret _ => true
def wfElifsB (sg : Sigs) (sl : SlotTabs) (inProc st : Bool) (dp : Dp) (d e : Nat) : ElseIfs → Bool
  | .nil => true
  | .cons c body rest =>
    eWfB sg sl c && decide (c.ty ≠ .str) && wfB sg sl inProc st dp d e body && wfElifsB sg sl inProc st dp d e rest
def wfCasesB (sg : Sigs) (sl : SlotTabs) (inProc st : Bool) (dp : Dp) (d e : Nat) : SCases → Bool
  | .nil => true
  | .cons conds body rest =>
    !conds.isEmpty && condsWfB sg sl conds && wfB sg sl inProc st dp d e body && wfCasesB sg sl inProc st dp d e rest
end

/-- DATA statements only at the top level (of the main module) -/
def wfTopB (sg : Sigs) (sl : SlotTabs) (dp : Dp) : SStmt → Bool
  | .seq a b => wfTopB sg sl dp a && wfTopB sg sl dp b
  | .data _ _ => true
  | s => wfB sg sl false false dp 0 0 s

def nodupB : List Nat → Bool
  | [] => true
  | x :: rest => !rest.contains x && nodupB rest

/-- the jump targets of a body are labels of that body -/
def targetsB (body : SStmt) : Bool :=
  body.gotos.all body.labels.contains && body.gosubs.all body.labels.contains

/-- every label of the program, main module first -/
def progLabels (prog : SProgram) : List Nat :=
  prog.body.labels ++ prog.procs.flatMap fun d => d.body.labels

/-- the premise of the layer's `compile_correct`, executable -/
def progWfB (prog : SProgram) : Bool :=
  let sg := sigsOf prog.procs
  let dp := dpOf prog
  wfTopB sg ⟨prog.slots, prog.gslots⟩ dp prog.body && targetsB prog.body &&
    (prog.procs.all fun d =>
      d.wfSlots && wfB sg ⟨d.slots, prog.gslots⟩ true d.static dp 0 0 d.body && targetsB d.body) &&
    nodupB (progLabels prog)

end RbModel.ProcJ
