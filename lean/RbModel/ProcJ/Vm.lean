import RbModel.ProcJ.Compile
import RbModel.Proc.Vm
/-!
# RbModel.ProcJ.Vm — VM model of the layer "procedures ∪ jumps"

`RbModel.Proc.Vm` (see its header: `Context` as a stack of frames / STATIC blocks / argument-collecting states, return
addresses with marks, by-reference queue, function-result stash, stack trace, PRINT flag) extended by the GOSUB stack of
`RbModel.JmpL.Vm` and by the full return marks of the real `PushRet` / `PopRet` (`interpreter/main.rs`):

* `GoSub a`: pushes its own address on `go_sub_address_stack` and the heights of the register stack and of the value stack on
  `go_sub_marks` (8f09b9b), continues at `a` — `gosubs`;
* `Return`: `pop_go_sub_address` (37cc5db): only the GOSUBs above the height recorded by the innermost `PushRet` (all of them
  in the main module) can be answered: pops the most recent one, cuts the register stack and the value stack back to its
  marks (`Vec::truncate`) and continues at address + 1; otherwise error 3 (`ReturnWithoutGoSub`) at its position;
* `PushRet a`: pushes `a` and the mark (heights of `register_stack`, `go_sub_address_stack`, `value_stack`, `var_path_stack`)
  — fa4a0f0, 64a41ef;
* `PopRet`: pops both, truncates the four stacks to the recorded heights (`go_sub_marks` with `go_sub_address_stack`) and
  continues at the address: a procedure left — by `END SUB` or by `EXIT SUB` — while GOSUBs of its own are pending, from inside
  FOR loops / SELECT blocks of a GOSUB routine or of the body itself, leaves nothing behind.

The state types that do not mention instructions (`Regs`, `Frame`, `CtxState`, `getVar`, `setVar`, `curVars`, `modCur`,
`curStatic`, `applyArgs`, `readVars`, `binInstr`) are those of `RbModel.Proc.Vm` (imported).
`stuck` marks what the real VM answers with a panic or what the model does not cover (inexact floats).
-/
namespace RbModel.ProcJ.Vm
open RbModel RbModel.ProcJ RbModel.ProcJ.Compile
open RbModel.Num hiding Expr
open RbModel.Ast (Pos)
open RbModel.Proc (Var zeroOf)
open RbModel.Proc.Vm (Regs Regs.new Frame CtxState getVar setVar curVars modCur curStatic applyArgs readVars binInstr codeOf)

/-- `return_marks`: heights of `register_stack` (the current frame counted), `go_sub_address_stack`, `value_stack`,
`var_path_stack` at a `PushRet` -/
structure Mark where
  regs : Nat
  gosubs : Nat
  vals : Nat
  paths : Nat
  deriving DecidableEq, Inhabited

/-- `Vec::truncate(n)` on a stack kept top first: the bottom `n` entries stay (all of them if there are no more) -/
def truncTop {α : Type} (n : Nat) (l : List α) : List α := l.drop (l.length - n)

def codeReturnWithoutGoSub : Nat := 3

/-- `pending_in_callers` of `pop_go_sub_address`: the GOSUB-stack height recorded by the innermost pending `PushRet` (0 in the
main module): the GOSUBs below it belong to callers -/
def pendingInCallers : List Mark → Nat
  | m :: _ => m.gosubs
  | [] => 0

structure Vm where
  pc : Nat
  regs : Regs
  /-- `register_stack` below the current frame of registers -/
  regStack : List Regs
  /-- `value_stack`, top first -/
  vals : List Val
  /-- `var_path_stack` (root paths: variable and type), top first -/
  paths : List (Var × Ty)
  /-- `Context::states`, top first; the last one is the global frame (the main module's own variables) -/
  ctx : List CtxState
  /-- the DIM SHARED variables (the part of memory block 0 addressed with `shared: true`) -/
  glob : Frame
  /-- `static_memory_blocks`: the persistent block of every STATIC procedure that has been called -/
  statics : Nat → Option Frame
  out : Print.WritePrinter
  skipNewline : Bool
  data : List Val
  dataIdx : Nat
  /-- `by_ref_stack` (a queue) -/
  queue : List Val
  /-- `function_result` -/
  funRes : Option Val
  /-- `return_address_stack`, top first -/
  rets : List Nat
  /-- `return_marks`, top first -/
  marks : List Mark
  /-- `go_sub_address_stack` zipped with `go_sub_marks`, most recent first: address of the `GoSub` instruction, height of
  `register_stack` (the current frame counted) and of `value_stack` when it ran -/
  gosubs : List (Nat × Nat × Nat)
  /-- `stacktrace`, most recent call first -/
  trace : List Pos

def Vm.init : Vm :=
  { pc := 0, regs := Regs.new, regStack := [], vals := [], paths := [], ctx := [.frame []], glob := [],
    statics := fun _ => none, out := Print.WritePrinter.new, skipNewline := false, data := [], dataIdx := 0, queue := [], funRes := none,
    rets := [], marks := [], gosubs := [], trace := [] }

inductive StepRes where
  | next (σ : Vm)
  | halt (σ : Vm)
  | error (code : Nat) (p : Pos) (σ : Vm)
  | stuck

def setA (σ : Vm) (v : Val) : Vm := { σ with regs := { σ.regs with a := v } }

/-- the variables in scope for a non-shared path -/
def Vm.curFrame (σ : Vm) : Option Frame := curVars σ.statics σ.ctx

/-- `resolve_name_ptr_mut` + read -/
def Vm.getV (σ : Vm) (x : Var) (t : Ty) : Option Val :=
  if x.shared then some (getVar σ.glob x.slot t)
  else match σ.curFrame with
    | some vars => some (getVar vars x.slot t)
    | none => none

/-- `*variables_mut().get_or_create(name) = v` on the current block -/
def Vm.setLocal (σ : Vm) (i : Nat) (v : Val) : Vm :=
  match curStatic σ.ctx with
  | some f => { σ with statics := fun g => if g = f then (σ.statics f).map (fun fr => setVar fr i v) else σ.statics g }
  | none => { σ with ctx := modCur (fun vars => setVar vars i v) σ.ctx }

/-- `resolve_name_ptr_mut` + write -/
def Vm.setV (σ : Vm) (x : Var) (v : Val) : Vm :=
  if x.shared then { σ with glob := setVar σ.glob x.slot v } else σ.setLocal x.slot v

def advance (σ : Vm) : Vm := { σ with pc := σ.pc + 1 }

def resA (σ : Vm) (p : Pos) : Res Val → StepRes
  | .ok v => .next (advance (setA σ v))
  | .err e => .error (codeOf e) p σ
  | .inexact => .stuck

/-- push a collected argument: the top state must be collecting (`Context::arguments_mut`) -/
def pushArg (σ : Vm) (v : Val) : Option Vm :=
  match σ.ctx with
  | .args vs :: rest => some { σ with ctx := .args (vs ++ [v]) :: rest }
  | _ => none

def step (code : Code) (σ : Vm) : StepRes :=
  match code[σ.pc]? with
  | none => .stuck
  | some (i, p) =>
    match i with
    | .loadA v => .next (advance (setA σ v))
    | .copyAToB => .next (advance { σ with regs := { σ.regs with b := σ.regs.a } })
    | .copyAToC => .next (advance { σ with regs := { σ.regs with c := σ.regs.a } })
    | .copyAToD => .next (advance { σ with regs := { σ.regs with d := σ.regs.a } })
    | .copyCToB => .next (advance { σ with regs := { σ.regs with b := σ.regs.c } })
    | .copyDToA => .next (advance { σ with regs := { σ.regs with a := σ.regs.d } })
    | .copyDToB => .next (advance { σ with regs := { σ.regs with b := σ.regs.d } })
    | .bin op => resA σ p (binInstr op σ.regs.a σ.regs.b)
    | .negateA => resA σ p (negate σ.regs.a)
    | .notA => resA σ p (unaryNot σ.regs.a)
    | .cast t => resA σ p (cast σ.regs.a t)
    | .pushA => .next (advance { σ with vals := σ.regs.a :: σ.vals })
    | .popA =>
      match σ.vals with
      | [] => .stuck
      | v :: rest => .next (advance { setA σ v with vals := rest })
    | .varPath x t => .next (advance { σ with paths := (x, t) :: σ.paths })
    | .copyVarPathToA =>
      match σ.paths with
      | (x, t) :: _ =>
        match σ.getV x t with
        | some v => .next (advance (setA σ v))
        | none => .stuck
      | [] => .stuck
    | .popVarPath =>
      match σ.paths with
      | [] => .stuck
      | _ :: rest => .next (advance { σ with paths := rest })
    | .copyAToVarPath =>
      match σ.paths with
      | [] => .stuck
      | (x, _) :: rest => .next (advance { σ.setV x σ.regs.a with paths := rest })
    | .label _ => .next (advance σ)
    | .jump a => .next { σ with pc := a }
    | .goSub a =>
      .next { σ with pc := a, gosubs := (σ.pc, σ.regStack.length + 1, σ.vals.length) :: σ.gosubs }
    | .ret =>
      -- `pop_go_sub_address`: the GOSUBs pending in the callers are out of reach
      if σ.gosubs.length > pendingInCallers σ.marks then
        match σ.gosubs with
        | [] => .error codeReturnWithoutGoSub p σ
        | (addr, rh, vh) :: rest =>
          match truncTop rh (σ.regs :: σ.regStack) with
          | [] => .stuck
          | r :: rs => .next { σ with pc := addr + 1, regs := r, regStack := rs, vals := truncTop vh σ.vals, gosubs := rest }
      else .error codeReturnWithoutGoSub p σ
    | .jumpIfFalse a =>
      match RbModel.Ref.truthy σ.regs.a with
      | none => .error 13 p σ
      | some true => .next (advance σ)
      | some false => .next { σ with pc := a }
    | .pushRegs => .next (advance { σ with regs := Regs.new, regStack := σ.regs :: σ.regStack })
    | .popRegs =>
      match σ.regStack with
      | [] => .stuck
      | r :: rest => .next (advance { σ with regs := r, regStack := rest })
    | .throwZeroStep => .error RbModel.Ref.codeZeroStep p σ
    | .halt => .halt σ
    | .allocate t => .next (advance (setA σ (zeroOf t)))
    | .printSetPrinter => .next (advance { σ with skipNewline := false })
    | .printSetFormat =>
      match σ.regs.a with
      | .str _ => .stuck
      | _ => .next (advance σ)
    | .printComma => .next (advance { σ with out := σ.out.moveToNextPrintZone, skipNewline := true })
    | .printSemicolon => .next (advance { σ with skipNewline := true })
    | .printValue =>
      match RbModel.Ref.printValue σ.regs.a with
      | none => .stuck
      | some pv => .next (advance { σ with out := σ.out.print (Print.valueText pv), skipNewline := false })
    | .printEnd =>
      if σ.skipNewline then .next (advance { σ with skipNewline := false })
      else .next (advance { σ with out := σ.out.println })
    | .beginArgs => .next (advance { σ with ctx := .args [] :: σ.ctx })
    | .pushByVal =>
      match pushArg σ σ.regs.a with
      | some σ' => .next (advance σ')
      | none => .stuck
    | .pushNamed _ _ =>
      match pushArg σ σ.regs.a with
      | some σ' => .next (advance σ')
      | none => .stuck
    | .pushByRef =>
      match σ.paths with
      | [] => .stuck
      | _ :: rest =>
        match pushArg { σ with paths := rest } σ.regs.a with
        | some σ' => .next (advance σ')
        | none => .stuck
    | .pushStack =>
      -- `stop_collecting_arguments`: the collected values become the variables of a new block
      match σ.ctx with
      | .args vs :: rest => .next (advance { σ with ctx := .frame (vs.map some) :: rest, trace := p :: σ.trace })
      | _ => .stuck
    | .isDefined x =>
      -- `variables().get_by_dim_name(..).is_some()` as a BASIC truth value
      match σ.curFrame with
      | some vars =>
        match vars[x]? with
        | some (some _) => .next (advance (setA σ (.int (-1))))
        | _ => .next (advance (setA σ (.int 0)))
      | none => .stuck
    | .pushStatic f =>
      -- `stop_collecting_arguments_static`: the block of `f` is created by the first call, re-used afterwards
      match σ.ctx with
      | .args vs :: rest =>
        let blk := match σ.statics f with
          | some fr => applyArgs fr vs
          | none => vs.map some
        .next (advance { σ with ctx := .sframe f :: rest, trace := p :: σ.trace,
                                statics := fun g => if g = f then some blk else σ.statics g })
      | _ => .stuck
    | .popStack =>
      -- `Context::pop` + `stacktrace.remove(0)`; a STATIC block stays in `statics`
      match σ.ctx, σ.trace with
      | .frame _ :: c :: rest, _ :: tr => .next (advance { σ with ctx := c :: rest, trace := tr })
      | .sframe _ :: c :: rest, _ :: tr => .next (advance { σ with ctx := c :: rest, trace := tr })
      | _, _ => .stuck
    | .pushRet a =>
      .next (advance { σ with rets := a :: σ.rets,
                              marks := ⟨σ.regStack.length + 1, σ.gosubs.length, σ.vals.length, σ.paths.length⟩ :: σ.marks })
    | .popRet =>
      match σ.rets, σ.marks with
      | a :: rets, m :: marks =>
        match truncTop m.regs (σ.regs :: σ.regStack) with
        | r :: rs =>
          .next { σ with pc := a, rets := rets, marks := marks, regs := r, regStack := rs,
                         gosubs := truncTop m.gosubs σ.gosubs, vals := truncTop m.vals σ.vals,
                         paths := truncTop m.paths σ.paths }
        | [] => .stuck
      | _, _ => .stuck
    | .builtInData =>
      match σ.ctx with
      | .frame vars :: _ =>
        match vars.mapM id with
        | some vs => .next (advance { σ with data := σ.data ++ vs })
        | none => .stuck
      | _ => .stuck
    | .builtInRead =>
      match σ.ctx with
      | .frame vars :: rest =>
        match vars.mapM id with
        | none => .stuck
        | some vs =>
          match readVars vs σ.data σ.dataIdx with
          | .inr () => .error RbModel.Ref.codeOutOfData (σ.trace.headD p) σ
          | .inl (.error e) => .error (codeOf e) (σ.trace.headD p) σ
          | .inl (.ok (vs', idx')) =>
            .next (advance { σ with ctx := .frame (vs'.map some) :: rest, dataIdx := idx' })
      | _ => .stuck
    | .enqueue i =>
      match σ.curFrame with
      | some vars =>
        match vars[i]? with
        | some (some v) => .next (advance { σ with queue := σ.queue ++ [v] })
        | _ => .stuck
      | none => .stuck
    | .dequeue =>
      match σ.queue with
      | [] => .stuck
      | v :: rest => .next (advance { setA σ v with queue := rest })
    | .stashResult x t =>
      match σ.curFrame with
      | some vars => .next (advance { σ with funRes := some (getVar vars x t) })
      | none => .stuck
    | .unStash =>
      match σ.funRes with
      | some v => .next (advance { setA σ v with funRes := none })
      | none => .stuck

inductive RunRes where
  | halted (σ : Vm)
  | error (code : Nat) (p : Pos) (σ : Vm)
  | stuck
  | outOfFuel

def run (code : Code) : Nat → Vm → RunRes
  | 0, _ => .outOfFuel
  | fuel + 1, σ =>
    match step code σ with
    | .next σ' => run code fuel σ'
    | .halt σ' => .halted σ'
    | .error c p σ' => .error c p σ'
    | .stuck => .stuck

end RbModel.ProcJ.Vm
