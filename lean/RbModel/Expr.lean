import Gen.ExprTables
import RbModel.Bits
/-
Model of the expression parser's grouping logic and of numeric-literal typing
(`rusty_parser/src/expr/{binary_expression,unary_expression,types,integer_or_long_literal}.rs`,
`rusty_bit_vec::BitVec::{push_hex,push_oct,convert_to_int_or_long_expr}`), for the tree as repaired
by the `fix:` commits for F1 (rank-order `should_flip_binary`), F2 (`apply_unary_priority_order`
repeats on the left operand) and F3 (decimal literals above `u32::MAX`, `-32768`, and the sign of a
negative decimal literal folded before its type is chosen).

The two rotation predicates are NOT hand-written here: they are the tables in `Gen/ExprTables.lean`,
extracted from the real `should_flip_binary` / `should_flip_unary` on every run.
-/
namespace RbModel.Expr

/-- `rusty_parser::Operator`, in declaration order (the order of the extracted table). -/
inductive Op where
  | less | lessEq | eq | greaterEq | greater | notEq | plus | minus | mul | div | mod | and | or
  deriving DecidableEq, Repr, Inhabited

/-- `rusty_parser::UnaryOperator` (`Minus`, `Not`). -/
inductive UOp where
  | neg | not
  deriving DecidableEq, Repr, Inhabited

def Op.idx : Op → Nat
  | .less => 0 | .lessEq => 1 | .eq => 2 | .greaterEq => 3 | .greater => 4 | .notEq => 5
  | .plus => 6 | .minus => 7 | .mul => 8 | .div => 9 | .mod => 10 | .and => 11 | .or => 12

def Op.all : List Op :=
  [.less, .lessEq, .eq, .greaterEq, .greater, .notEq, .plus, .minus, .mul, .div, .mod, .and, .or]

def UOp.idx : UOp → Nat
  | .neg => 0 | .not => 1

/-- Expression trees with positions and types erased.  `leaf n` is an opaque operand (a variable,
literal, call ...), `paren t` is `Expression::Parenthesis`; both are atoms for the rotations. -/
inductive Tree where
  | leaf (n : Nat)
  | paren (t : Tree)
  | un (u : UOp) (t : Tree)
  | bin (o : Op) (l r : Tree)
  deriving DecidableEq, Repr, Inhabited

/-! ### The property's ranks (the specification side) -/

/-- Binding strength of the binary operators: `* /` > `MOD` > `+ -` > relational > (NOT) > `AND` > `OR`. -/
def rankB : Op → Nat
  | .or => 1
  | .and => 2
  | .less | .lessEq | .eq | .greaterEq | .greater | .notEq => 4
  | .plus | .minus => 5
  | .mod => 6
  | .mul | .div => 7

/-- Binding strength of the prefix operators: unary minus above everything, `NOT` between the
relational operators and `AND`. -/
def rankU : UOp → Nat
  | .not => 3
  | .neg => 8

/-! ### The extracted predicates -/

/-- `should_flip_binary` on `BinaryExpression(l, _, BinaryExpression(r, ..))`: row `l`, column `r` of the
extracted table. -/
def shouldFlipBinary (l r : Op) : Bool :=
  ((Gen.ExprTables.flipBinary.getD l.idx []).getD r.idx false)

/-- `should_flip_unary(op)` on a `BinaryExpression(r, ..)`: row `op`, column `r` of the extracted table
(the extractor checks that the predicate is `false` on every non-binary expression kind and writes
that fact as `Gen.ExprTables.flipUnaryNonBinary`). -/
def shouldFlipUnary (u : UOp) (r : Op) : Bool :=
  ((Gen.ExprTables.flipUnary.getD u.idx []).getD r.idx false)

/-! ### The parser's tree surgery -/

/-- `ExpressionPosTrait::binary_expr` with `flip_binary` inlined:
build `l o r`; if `should_flip_binary` (root of `r` is binary `ro` and the predicate holds for `(o, ro)`)
then `flip_binary`: `new_left = l.binary_expr(o, r.left)`, result `new_left.binary_expr(ro, r.right)`.
Both recursive calls are on sub-trees of the right operand. -/
def binaryExpr (sf : Op → Op → Bool) : Tree → Op → Tree → Tree
  | l, o, .bin ro rl rr =>
    if sf o ro then binaryExpr sf (binaryExpr sf l o rl) ro rr
    else .bin o l (.bin ro rl rr)
  | l, o, r => .bin o l r

/-- `ExpressionPosTrait::apply_unary_priority_order` (after the F2 repair): if `should_flip_unary`
then apply the operator to the left operand *by the same function* and rebuild with `binary_expr`;
otherwise wrap. -/
def applyUnary (sf : Op → Op → Bool) (su : UOp → Op → Bool) (u : UOp) : Tree → Tree
  | .bin ro rl rr =>
    if su u ro then binaryExpr sf (applyUnary sf su u rl) ro rr
    else .un u (.bin ro rl rr)
  | t => .un u t

/-- What the recursive descent of `binary_expression::parser` sees:
`expr ::= nonbin [op expr]`, `nonbin ::= operand | "(" expr ")" | unop expr`.
(A prefix operator is followed by a whole expression, which consumes every operator that follows,
so nothing can follow a `un`.) -/
inductive Src where
  | atom (n : Nat)
  | par (s : Src)
  | atomBin (n : Nat) (o : Op) (rest : Src)
  | parBin (s : Src) (o : Op) (rest : Src)
  | un (u : UOp) (rest : Src)
  deriving Repr, Inhabited

/-- `binary_expression::parser` / `unary_expression::parser` / `parenthesis::parser`:
parse the rest first (right recursion), then `apply_priority_order` = `binary_expr`. -/
def parseWith (sf : Op → Op → Bool) (su : UOp → Op → Bool) : Src → Tree
  | .atom n => .leaf n
  | .par s => .paren (parseWith sf su s)
  | .atomBin n o r => binaryExpr sf (.leaf n) o (parseWith sf su r)
  | .parBin s o r => binaryExpr sf (.paren (parseWith sf su s)) o (parseWith sf su r)
  | .un u r => applyUnary sf su u (parseWith sf su r)

/-- The parser with the real (extracted) predicates. -/
def parseChain : Src → Tree := parseWith shouldFlipBinary shouldFlipUnary

/-! ### The reference: textbook precedence climbing over a token list -/

inductive Tok where
  | opd (t : Tree)      -- an operand: an opaque leaf or an already parsed parenthesised expression
  | un (u : UOp)
  | bin (o : Op)
  deriving DecidableEq, Repr, Inhabited

mutual
/-- primary ::= operand | unop expr(rank unop) -/
def prim : Nat → List Tok → Option (Tree × List Tok)
  | 0, _ => none
  | _ + 1, .opd t :: ts => some (t, ts)
  | f + 1, .un u :: ts =>
    match expr f (rankU u) ts with
    | some (e, ts') => some (.un u e, ts')
    | none => none
  | _ + 1, _ => none
/-- expr(min) ::= primary, then the operator loop. -/
def expr : Nat → Nat → List Tok → Option (Tree × List Tok)
  | 0, _, _ => none
  | f + 1, m, ts =>
    match prim f ts with
    | some (p, ts') => loop f m p ts'
    | none => none
/-- while the next token is a binary operator of rank ≥ min: parse its right operand at rank + 1
(left associativity) and fold it into the left operand. -/
def loop : Nat → Nat → Tree → List Tok → Option (Tree × List Tok)
  | 0, _, _, _ => none
  | f + 1, m, lhs, .bin o :: ts =>
    if m ≤ rankB o then
      match expr f (rankB o + 1) ts with
      | some (rhs, ts') => loop f m (.bin o lhs rhs) ts'
      | none => none
    else some (lhs, .bin o :: ts)
  | _ + 1, _, lhs, ts => some (lhs, ts)
end

/-- Precedence climbing on a whole token list (fuel: twice the length is always enough, see
`RbThm.C10.climbToks_yield`); `none` if tokens are left over or the list is not an expression. -/
def climbToks (ts : List Tok) : Option Tree :=
  match expr (2 * ts.length + 2) 0 ts with
  | some (t, []) => some t
  | _ => none

/-- Tokens of a source expression; parenthesised sub-expressions are climbed recursively and
become operands. -/
def toks? : Src → Option (List Tok)
  | .atom n => some [.opd (.leaf n)]
  | .par s =>
    match toks? s with
    | some ts => match climbToks ts with
      | some t => some [.opd (.paren t)]
      | none => none
    | none => none
  | .atomBin n o r =>
    match toks? r with
    | some ts => some (.opd (.leaf n) :: .bin o :: ts)
    | none => none
  | .parBin s o r =>
    match toks? s, toks? r with
    | some ts, some tr => match climbToks ts with
      | some t => some (.opd (.paren t) :: .bin o :: tr)
      | none => none
    | _, _ => none
  | .un u r =>
    match toks? r with
    | some ts => some (.un u :: ts)
    | none => none

/-- The reference parse of a source expression. -/
def climb (s : Src) : Option Tree :=
  match toks? s with
  | some ts => climbToks ts
  | none => none

/-! ### Numeric literals -/

/-- A parsed numeric literal: `IntegerLiteral`, `LongLiteral`, an integer-valued `DoubleLiteral`
(the value is kept exactly here; rounding to the nearest `f64` above 2^53 is Rust's `parse::<f64>` and
outside the model), or the parse error `Overflow`. -/
inductive Lit where
  | int (v : Int)
  | long (v : Int)
  | double (v : Int)
  | overflow
  deriving DecidableEq, Repr, Inhabited

/-- The first whole number that is not a DOUBLE any more: `2^1024 - 2^970`, halfway between the largest
DOUBLE `2^1024 - 2^971` and `2^1024`.  `parse::<f64>` rounds to nearest, ties to even, so it answers an
infinity from this number on (the tie goes up: the significand of the largest DOUBLE is odd) and the
largest DOUBLE for every whole number below it (`RbThm.C10Float.dblOverflow_is_rounding_edge`). -/
def dblOverflow : Nat := 2 ^ 1024 - 2 ^ 970

/-- `process_dec(token, negative)`: `parse::<u32>` succeeds up to 4294967295; the value, with the sign
the caller has already consumed (`negative_dec_parser`, reached from `negative_number_literal` for a
minus sign directly followed by digits), is classified against the INTEGER and LONG ranges;
otherwise `parse::<f64>`, negated if `negative`; an infinite result of `parse::<f64>` is the parse
error `Overflow`. -/
def processDec (negative : Bool) (n : Nat) : Lit :=
  let v : Int := if negative then -(n : Int) else (n : Int)
  if n ≤ 4294967295 then
    if -32768 ≤ v ∧ v ≤ 32767 then .int v
    else if -2147483648 ≤ v ∧ v ≤ 2147483647 then .long v
    else .double v
  else if n < dblOverflow then .double v
  else .overflow

/-- A run of decimal digits (`integer_or_long_literal::parser`). -/
def decLit (n : Nat) : Lit := processDec false n

/-- A minus sign directly followed by a run of decimal digits (`unary_expression::negative_number_literal`). -/
def negDecLit (n : Nat) : Lit := processDec true n

/-- Value of a digit string in the given base (most significant digit first): what `parse::<u32>` /
`parse::<f64>` read from a `Digits` token, leading zeros included. -/
def digitsVal (base : Nat) (ds : List Nat) : Nat := ds.foldl (fun acc d => base * acc + d) 0

/-- `BitVec::push_hex`: four bits, most significant first. -/
def pushHex (d : Nat) : List Bool := [d / 8 % 2 == 1, d / 4 % 2 == 1, d / 2 % 2 == 1, d % 2 == 1]

/-- `BitVec::push_oct`: three bits, most significant first. -/
def pushOct (d : Nat) : List Bool := [d / 4 % 2 == 1, d / 2 % 2 == 1, d % 2 == 1]

/-- `find_first_non_zero_bit`. -/
def firstNonZero : List Bool → Option Nat
  | [] => none
  | true :: _ => some 0
  | false :: r => (firstNonZero r).map (· + 1)

/-- `BitVec::convert_to_int_or_long_expr` followed by `create_expression_from_bit_vec`
(`bits_to_i32` and `bits_to_i64` are the same macro: `RbModel.Bits.toInt`). -/
def convertBits (v : List Bool) : Lit :=
  match firstNonZero v with
  | none => .int 0
  | some index =>
    let bitCount := v.length - index
    if bitCount = 0 then .int 0
    else if bitCount ≤ 16 then
      let v' := if bitCount < 16 then false :: v else v
      .int (Bits.toInt (v'.drop index))
    else if bitCount ≤ 32 then
      let v' := if bitCount < 32 then false :: v else v
      .long (Bits.toInt (v'.drop index))
    else .overflow

/-- `process_hex` on the digit values of the text after `&H` (a leading `-` is `Overflow` in the
code and is not a digit list): skip leading `0` digits, push four bits per digit, convert. -/
def hexLit (ds : List Nat) : Lit :=
  convertBits ((ds.dropWhile (· == 0)).flatMap pushHex)

/-- `process_oct`. -/
def octLit (ds : List Nat) : Lit :=
  convertBits ((ds.dropWhile (· == 0)).flatMap pushOct)

/-- The literal branches of `Expression::unary_minus` (reached for `-&H..`, `-&O..`, `--5`; a minus sign
directly followed by decimal digits no longer comes here, see `negDecLit`). -/
def negLit : Lit → Lit
  | .int n => if n ≤ -32768 then .long (-n) else .int (-n)
  | .long n =>
    if n ≤ -2147483648 then .double (-n)
    else if -n = -32768 then .int (-32768)
    else .long (-n)
  | .double n => .double (-n)
  | .overflow => .overflow

/-- The property's typing rule: the narrowest of INTEGER, LONG, DOUBLE that holds the value; a whole
number of magnitude `dblOverflow` or more is held by none of them (its nearest DOUBLE is not finite). -/
def narrowest (v : Int) : Lit :=
  if -32768 ≤ v ∧ v ≤ 32767 then .int v
  else if -2147483648 ≤ v ∧ v ≤ 2147483647 then .long v
  else if v.natAbs < dblOverflow then .double v
  else .overflow

end RbModel.Expr
