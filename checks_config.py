"""Per-property configuration of ./check (theorem modules, harness binaries, extracted tables, claimed level)."""

CHECKS = {
    "C19": {
        "level": "proof",
        "thm": ["Thm.C19"],
        "bins": ["c19"],
        "trusted_base": [
            "hand-written model lean/RbModel/Bits.lean of rusty_bit_vec (From<i32>, bits_to_i32, BitAnd, BitOr) and rusty_variant/src/bits.rs (qb_and, qb_or, i32_to_bytes, bytes_to_i32) and PeekByte/PokeByte for VInteger; tied by exhaustive comparison over all 65536 INTEGER values and boundary+random pairs",
            "Rust's native i16 operators and f64::to_le_bytes as the two's-complement / IEEE-754 reference in the harness",
        ],
        "assumptions": [
            "INTEGER operands are in -32768..32767 (C06 is the property that keeps them there)",
            "doubles: MKD$/CVD are compared with IEEE-754 on the implementation (known finding F12 for |x| >= 2^63 and subnormals); the Lean model covers the integer primitives",
        ],
        "unproved": ["mkd_is_ieee / cvd_mkd_roundtrip over a Lean model of f64_to_bits (doubles are decided by the differential run against f64::to_le_bytes only)"],
    },
}
