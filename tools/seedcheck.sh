#!/bin/sh
# Runs checks of a scratch COPY of /verif against a scratch worktree of the repository
# (used to validate detection of seeded changes without touching /repo while builders use it).
# usage: tools/seedcheck.sh <worktree> <id> [<id>...]     (quick tier)
set -e
WT="$1"; shift
SV="/tmp/sv/$(basename $(dirname $WT))"
mkdir -p "$SV"
rsync -a --delete --exclude work --exclude harness/target /verif/ "$SV/verif/" || [ $? -eq 24 ]   # 24: a file vanished while a build ran in /verif
cd "$SV/verif"
grep -rl '/repo' harness/Cargo.toml harness/src | xargs sed -i "s#/repo#$WT#g"
for id in "$@"; do
  ./check "$id" quick 2>&1 | tail -6
  echo "== $id rc=$?"
done
