#!/bin/sh
# Confirms a seeded change delivered under /tmp/seed/<id>/out: the unedited test suite passes with
# the change, and the demonstration behaves differently with and without it.
# usage: tools/seedconfirm.sh <id>
id="$1"; WT=/tmp/seed/$id/repo; OUT=/tmp/seed/$id/out
cd $WT || exit 2
echo "--- changed files:"; git status --short | head
echo "--- test suite with the change:"
cargo test --offline --workspace 2>&1 | grep -E "^test result|FAILED|failed" | sort | uniq -c | head -12
cargo build --offline -p rusty_basic 2>&1 | tail -1
for d in $OUT/*.bas; do
  [ -f "$d" ] || continue
  echo "--- demo $d: with change:"; (cd $OUT && timeout 20 $WT/target/debug/rusty_basic $d 2>&1 | head -20)
  echo "--- demo $d: unchanged /repo build:"; (cd $OUT && timeout 20 /repo/target/debug/rusty_basic $d 2>&1 | head -20)
done
