#!/bin/sh
# runs every check of the given tier one after the other (checks share the driver binary); summary on stdout
# usage: tools/runall.sh quick|thorough [Cxx ...]
cd "$(dirname "$0")/.."
tier=${1:-quick}; shift
ids=${*:-$(ls checks.d | sed 's/\.json$//')}
mkdir -p work
for id in $ids; do
  ./check "$id" "$tier" > "work/runall-$id.log" 2>&1
  rc=$?
  printf '%s rc=%s %s\n' "$id" "$rc" "$(grep -E "^$id $tier:" "work/runall-$id.log" | tail -1)"
  grep -E '^VIOLATION' "work/runall-$id.log"
done
