#!/usr/bin/env python3
"""Records a confirmed seeded change under /verif/seeded/<id>/: patch.diff, the demonstration, meta.json
(the seeder's meta + what the lead ran and which check caught it). usage: seedkeep.py <id> <name> <detected:true|false> <what-caught-it>"""
import json, os, shutil, sys
sid, name, detected, how = sys.argv[1], sys.argv[2], sys.argv[3] == "true", sys.argv[4]
src = f"/tmp/seed/{sid}/out"
dst = f"/verif/seeded/{name}"
os.makedirs(dst, exist_ok=True)
for f in os.listdir(src):
    if f.startswith("rusty_basic"):
        continue  # baseline binaries the seeder left behind
    if os.path.isfile(os.path.join(src, f)):
        shutil.copy(os.path.join(src, f), dst)
meta = {}
try:
    meta = json.load(open(os.path.join(src, "meta.json")))
except Exception as e:
    meta = {"note": "seeder's meta.json unreadable: %s" % e}
meta["lead_confirmation"] = {
    "ran": "tools/seedconfirm.sh (cargo test --offline --workspace in the seeded worktree: all suites passed; demo run with the seeded build and with the unchanged build: outputs differ as claimed)",
    "check_run": "tools/seedcheck.sh (a scratch copy of /verif with the harness pointed at the seeded worktree; ./check <id> quick)",
    "detected": detected,
    "detected_by": how,
}
json.dump(meta, open(os.path.join(dst, "meta.json"), "w"), indent=1)
print("kept", dst)
