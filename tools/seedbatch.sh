#!/bin/sh
# usage: tools/seedbatch.sh "<tag>:<id>[,<id>...]" ...   -- seedconfirm + seedcheck for each, one after the other
cd "$(dirname "$0")/.."
for item in "$@"; do
  tag=${item%%:*}; ids=$(echo "${item#*:}" | tr ',' ' ')
  tools/seedconfirm.sh "$tag" > "/tmp/seed/$tag/confirm.log" 2>&1
  tools/seedcheck.sh "/tmp/seed/$tag/repo" $ids > "/tmp/seed/$tag/check.log" 2>&1
  echo "done $tag: $(grep -E '^== ' /tmp/seed/$tag/check.log | tr '\n' ' ')"
done
