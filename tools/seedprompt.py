#!/usr/bin/env python3
"""Prints the prompt for a seeding sub-agent: tools/seedprompt.py <Cxx> <tag>
The agent gets ONLY the property text, the kinds of change already used, and its own scratch
worktree /tmp/seed/<tag>/repo (created by the lead) -- nothing from /verif."""
import glob
import json
import os
import sys

ROOT = os.path.dirname(os.path.dirname(os.path.abspath(__file__)))
pid, tag = sys.argv[1], sys.argv[2]
prop = None
for line in open(os.path.join(ROOT, "properties.jsonl")):
    d = json.loads(line)
    if d["id"] == pid:
        prop = d
prev = []
for m in sorted(glob.glob(os.path.join(ROOT, "seeded", "*", "meta.json"))):
    d = json.load(open(m))
    if d.get("property") == pid:
        s = d.get("summary", "")
        prev.append("- " + s[:400])
wt = f"/tmp/seed/{tag}/repo"
out = f"/tmp/seed/{tag}/out"
print(f"""You are helping to test a verification effort for the open-source project ngeor/rusty-basic (a QBasic
interpreter written in Rust: parser-combinator front end `rusty_pc` + `rusty_parser`, type-resolving linter
`rusty_linter`, instruction generator and VM in `rusty_basic`, values in `rusty_variant`, `rusty_bit_vec`,
`rusty_common`). Your job is to play the part of a developer who makes a *plausible, innocent-looking change* to
the code that silently BREAKS one semantic property while everything still compiles and the whole existing test
suite still passes.

You have your own scratch git worktree of the repository at `{wt}` (detached HEAD). Work ONLY there and in
`{out}` (for your deliverables). Do NOT read, list or touch `/verif` or `/repo` at all -- your change must be
independent of whatever machinery exists elsewhere. There is no network; build with `cargo build --offline`
and test with `cargo test --offline --workspace` (inside `{wt}`; a cold build takes one to two minutes).

## The property you must break

id: {prop['id']}
title: {prop['title']}

statement: {prop['statement']}

quantifier (what it ranges over): {prop['quantifier']}

why the tests cannot settle it: {prop['why_tests_cant']}

code it is anchored in: {json.dumps(prop['anchors'], ensure_ascii=False)}

## Kinds of change ALREADY used for this property -- do something of a different kind, in a different place
{chr(10).join(prev) if prev else '(none)'}

## Requirements for the change

1. It must break the property above for some inputs, on the tree WITH your change, and the property must hold for
   those inputs on the tree WITHOUT it.
2. `cargo build --offline` succeeds and `cargo test --offline --workspace` passes completely (no test edited,
   removed or ignored; do not touch any file under a `tests` directory or any `#[cfg(test)]` module).
3. It must look like something a maintainer could really commit: a refactoring, an "optimisation", a tidy-up, an
   off-by-one in a rarely used branch, a helper reused where it does not quite fit, a changed order of two
   operations, state not saved/restored on one path ... No sabotage comments, no `if input == magic`.
4. It must need something SPECIFIC to manifest -- a particular multi-step sequence of operations, an unusual input,
   a particular nesting / history / interleaving, a fault at a particular point, or two cooperating sites that each
   look fine alone. Ordinary everyday programs (the kind in the test suite) must keep working: not a change that the
   first use of the feature would expose.
5. Keep it small (a few lines to a few dozen lines, one to three files). Do not change public API signatures, do not
   add or remove enum variants or struct fields, do not touch Cargo files.

## Deliverables (all in `{out}`)

* `patch.diff` -- `git -C {wt} diff > {out}/patch.diff` (leave the change applied and uncommitted in the worktree).
* `demo.bas` -- a small BASIC program (or several `demoN.bas`) whose output (stdout / error message printed by the
  interpreter) DIFFERS between the changed and the unchanged tree; run it as
  `{wt}/target/debug/rusty_basic demo.bas` (a program that reads input may take it from stdin).
  `expected.txt` = output on the UNCHANGED tree (obtain it first with `git stash` / before editing, or from a second
  build), `actual.txt` = output WITH the change. If the property is about an internal API that no BASIC program can
  reach (e.g. parser combinators), deliver instead a Rust test file `demo_test.rs` plus the exact instructions for
  where to put it and how to run it, with both outputs.
* optionally `control.bas`: a similar everyday program that behaves the same with and without the change.
* `meta.json` with the keys: `property` ("{prop['id']}"), `summary` (what the change does and why it looks innocent),
  `needs_to_manifest` (exactly what an input / history must contain for the breakage to show), `files_changed`,
  `demo` (how to run, what differs), `verified` (what you actually ran: the build, the FULL test-suite result with
  the numbers of passed tests, the two demo outputs).

Before you finish, re-run the complete test suite with the change applied and make sure nothing fails, and make
sure `demo.bas` really behaves differently. Your final answer: a five-line summary (the change, what it needs to
manifest, test-suite result, demo difference). If after serious effort you cannot find such a change, say so and
explain what you tried.""")
