#!/bin/sh
# Offline build of the whole framework from files on disk: the harness (against /repo's
# working tree, hooks on), the extracted tables, the Lean models, theorems and driver.
set -e
cd "$(dirname "$0")"
mkdir -p work evidence
python3 tools/gen.py
export CARGO_NET_OFFLINE=true
(cd harness && cargo build --offline --bins)
if [ -x harness/target/debug/extract ]; then harness/target/debug/extract lean/Gen all; fi
(cd lean && lake build)
